// Copyright 2013 The Go Authors. All rights reserved.
// Use of this source code is governed by a BSD-style
// license that can be found in the LICENSE file.

// Package interp is a symbolic interpreter for go/ssa, forked from
// golang.org/x/tools/go/ssa/interp v0.29.0.
package interp

import (
	"fmt"
	"go/token"
	"go/types"
	"os"
	"runtime"
	"slices"
	"strings"

	"golang.org/x/tools/go/ssa"
)

type continuation int

const (
	kNext continuation = iota
	kReturn
	kJump
)

type methodSet map[string]*ssa.Function

const repoPrefix = "github.com/getkin/kin-openapi"

// Program-wide state shared (read-only) by all workers; set by Setup.
var (
	theProg             *ssa.Program
	runtimeErrorStringT types.Type
	rtypeMethods        methodSet
	errorMethods        methodSet
	stdSizes            = &types.StdSizes{WordSize: 8, MaxAlign: 8}
	repoPkgs            []*ssa.Package // in dependency order is not needed: init chains do it
	errorsNewFn         *ssa.Function
)

// interpreter is the per-worker interpreter state.
type interpreter struct {
	prog      *ssa.Program
	globals   map[*ssa.Global]*value
	w         *Worker
	steps     int
	depth     int
	stack     []*ssa.Function
	foreign   map[*ssa.Global]bool // foreign globals initialised lazily (kept across paths)
	shared    *sharedMonitor
	syncDepth int // >0 while inside a sync primitive (Once.Do, held mutex)
}

type deferred struct {
	fn    value
	args  []value
	instr *ssa.Defer
	tail  *deferred
}

type frame struct {
	i                *interpreter
	caller           *frame
	fn               *ssa.Function
	block, prevBlock *ssa.BasicBlock
	env              map[ssa.Value]value // dynamic values of SSA variables
	locals           []value
	defers           *deferred
	result           value
	panicking        bool
	panic            interface{}
	phitemps         []value // temporaries for parallel phi assignment
}

func (fr *frame) get(key ssa.Value) value {
	switch key := key.(type) {
	case nil:
		return nil
	case *ssa.Function, *ssa.Builtin:
		return key
	case *ssa.Const:
		return constValue(key)
	case *ssa.Global:
		return fr.i.global(key)
	}
	if r, ok := fr.env[key]; ok {
		return r
	}
	panic(fmt.Sprintf("get: no value for %T: %v", key, key.Name()))
}

func isRepoPkg(p *ssa.Package) bool {
	return p != nil && strings.HasPrefix(p.Pkg.Path(), repoPrefix)
}

// global returns the address of a package-level variable, initialising
// foreign (non-repository) variables lazily.
func (i *interpreter) global(g *ssa.Global) *value {
	if r, ok := i.globals[g]; ok {
		return r
	}
	cell := zero(mustDeref(g.Type()))
	i.globals[g] = &cell
	if !isRepoPkg(g.Pkg) {
		i.initForeignGlobal(g, &cell)
	}
	return &cell
}

// resetGlobals re-creates the repository packages' globals and re-runs
// their initialisers (foreign globals are kept).
func (i *interpreter) resetGlobals() {
	for g := range i.globals {
		if isRepoPkg(g.Pkg) {
			delete(i.globals, g)
		}
	}
	if i.shared != nil {
		i.shared = nil
	}
	call(i, nil, token.NoPos, i.w.eng.Pkg.Func("init"), nil)
}

func (i *interpreter) stackStrings() []string {
	out := make([]string, len(i.stack))
	for k, f := range i.stack {
		out[k] = f.String()
	}
	return out
}

// runDefer runs a deferred call d.
// It always returns normally, but may set or clear fr.panic.
func (fr *frame) runDefer(d *deferred) {
	var ok bool
	defer func() {
		if !ok {
			p := recover()
			if isControl(p) {
				panic(p)
			}
			// Deferred call created a new state of panic.
			fr.panicking = true
			fr.panic = p
		}
	}()
	call(fr.i, fr, d.instr.Pos(), d.fn, d.args)
	ok = true
}

// runDefers executes fr's deferred function calls in LIFO order.
func (fr *frame) runDefers() {
	for d := fr.defers; d != nil; d = d.tail {
		fr.runDefer(d)
	}
	fr.defers = nil
	if fr.panicking {
		panic(fr.panic) // new panic, or still panicking
	}
}

// lookupMethod returns the method set for type typ, which may be one
// of the interpreter's fake types.
func lookupMethod(i *interpreter, typ types.Type, meth *types.Func) *ssa.Function {
	switch typ {
	case rtypeType:
		return rtypeMethods[meth.Id()]
	case errorType:
		return errorMethods[meth.Id()]
	}
	return i.prog.LookupMethod(typ, meth.Pkg(), meth.Name())
}

func rtPanic(i *interpreter, msg string) {
	if debugPanics {
		fmt.Fprintf(os.Stderr, "rtPanic %q at %s\n", msg, strings.Join(i.stackStrings(), " > "))
	}
	panic(targetPanic{v: runtimeErr(i, msg)})
}

var debugPanics = os.Getenv("SYMGO_DEBUG") != ""

func runtimeErr(i *interpreter, msg string) value {
	return iface{t: runtimeErrorStringT, v: msg}
}

// visitInstr interprets a single ssa.Instruction within the activation
// record frame.  It returns a continuation value indicating where to
// read the next instruction from.
func visitInstr(fr *frame, instr ssa.Instruction) continuation {
	i := fr.i
	switch instr := instr.(type) {
	case *ssa.DebugRef:
		// no-op

	case *ssa.UnOp:
		fr.env[instr] = i.unop(instr, fr.get(instr.X))

	case *ssa.BinOp:
		fr.env[instr] = i.binop(instr.Op, instr.X.Type(), fr.get(instr.X), fr.get(instr.Y))

	case *ssa.Call:
		fn, args := prepareCall(fr, &instr.Call)
		fr.env[instr] = call(fr.i, fr, instr.Pos(), fn, args)

	case *ssa.ChangeInterface:
		fr.env[instr] = fr.get(instr.X)

	case *ssa.ChangeType:
		fr.env[instr] = fr.get(instr.X) // (can't fail)

	case *ssa.Convert:
		fr.env[instr] = i.conv(instr.Type(), instr.X.Type(), fr.get(instr.X))

	case *ssa.SliceToArrayPointer:
		fr.env[instr] = sliceToArrayPointer(instr.Type(), instr.X.Type(), fr.get(instr.X))

	case *ssa.MakeInterface:
		fr.env[instr] = iface{t: instr.X.Type(), v: fr.get(instr.X)}

	case *ssa.Extract:
		fr.env[instr] = fr.get(instr.Tuple).(tuple)[instr.Index]

	case *ssa.Slice:
		fr.env[instr] = i.slice(fr.get(instr.X), fr.get(instr.Low), fr.get(instr.High), fr.get(instr.Max))

	case *ssa.Return:
		switch len(instr.Results) {
		case 0:
		case 1:
			fr.result = fr.get(instr.Results[0])
		default:
			var res []value
			for _, r := range instr.Results {
				res = append(res, fr.get(r))
			}
			fr.result = tuple(res)
		}
		fr.block = nil
		return kReturn

	case *ssa.RunDefers:
		fr.runDefers()

	case *ssa.Panic:
		panic(targetPanic{fr.get(instr.X)})

	case *ssa.Send:
		panic(unsupported{"channel send"})

	case *ssa.Store:
		addr := fr.get(instr.Addr).(*value)
		if i.shared != nil {
			i.shared.onWrite(fr, addr, instr, fr.get(instr.Val))
		}
		store(mustDeref(instr.Addr.Type()), addr, fr.get(instr.Val))

	case *ssa.If:
		succ := 1
		if i.truth(fr.get(instr.Cond)) {
			succ = 0
		}
		fr.prevBlock, fr.block = fr.block, fr.block.Succs[succ]
		return kJump

	case *ssa.Jump:
		fr.prevBlock, fr.block = fr.block, fr.block.Succs[0]
		return kJump

	case *ssa.Defer:
		fn, args := prepareCall(fr, &instr.Call)
		defers := &fr.defers
		if into := fr.get(instr.DeferStack); into != nil {
			defers = into.(**deferred)
		}
		*defers = &deferred{
			fn:    fn,
			args:  args,
			instr: instr,
			tail:  *defers,
		}

	case *ssa.Go:
		panic(unsupported{"go statement"})

	case *ssa.MakeChan:
		panic(unsupported{"make(chan)"})

	case *ssa.Alloc:
		var addr *value
		if instr.Heap {
			// new
			addr = new(value)
			fr.env[instr] = addr
		} else {
			// local
			addr = fr.env[instr].(*value)
		}
		*addr = zero(mustDeref(instr.Type()))

	case *ssa.MakeSlice:
		c := i.concretize(fr.get(instr.Cap))
		l := i.concretize(fr.get(instr.Len))
		if c < 0 || l < 0 || l > c || c > 1<<24 {
			rtPanic(i, "runtime error: makeslice: len out of range")
		}
		slice := make([]value, c)
		tElt := instr.Type().Underlying().(*types.Slice).Elem()
		for k := range slice {
			slice[k] = zero(tElt)
		}
		fr.env[instr] = slice[:l]

	case *ssa.MakeMap:
		fr.env[instr] = makeMap(instr.Type().Underlying().(*types.Map).Key(), 0)

	case *ssa.Range:
		fr.env[instr] = rangeIter(fr.get(instr.X), instr.X.Type(), fr.i.w != nil && fr.i.w.mapDesc)

	case *ssa.Next:
		fr.env[instr] = fr.get(instr.Iter).(iter).next(fr)

	case *ssa.FieldAddr:
		fr.env[instr] = &(*fr.get(instr.X).(*value)).(structure)[instr.Field]

	case *ssa.Field:
		fr.env[instr] = fr.get(instr.X).(structure)[instr.Field]

	case *ssa.IndexAddr:
		x := fr.get(instr.X)
		idx := i.concretize(fr.get(instr.Index))
		switch x := x.(type) {
		case []value:
			fr.env[instr] = &x[idx]
		case *value: // *array
			fr.env[instr] = &(*x).(array)[idx]
		default:
			panic(fmt.Sprintf("unexpected x type in IndexAddr: %T", x))
		}

	case *ssa.Index:
		x := fr.get(instr.X)
		idx := i.concretize(fr.get(instr.Index))
		switch x := x.(type) {
		case array:
			fr.env[instr] = x[idx]
		case string:
			fr.env[instr] = x[idx]
		case symStr:
			b := x.b[idx]
			if _, ok := b.(opaque); ok {
				panic(unsupported{"index into a string containing a formatted symbolic number"})
			}
			fr.env[instr] = b
		default:
			panic(fmt.Sprintf("unexpected x type in Index: %T", x))
		}

	case *ssa.Lookup:
		fr.env[instr] = i.lookup(instr, fr.get(instr.X), fr.get(instr.Index))

	case *ssa.MapUpdate:
		m := fr.get(instr.Map).(*omap)
		if m == nil {
			rtPanic(i, "assignment to entry in nil map")
		}
		if i.shared != nil {
			i.shared.onMapWrite(fr, m, instr, fr.get(instr.Key), fr.get(instr.Value))
		}
		m.insert(i, fr.get(instr.Key), fr.get(instr.Value))

	case *ssa.TypeAssert:
		fr.env[instr] = typeAssert(fr.i, instr, fr.get(instr.X).(iface))

	case *ssa.MakeClosure:
		var bindings []value
		for _, binding := range instr.Bindings {
			bindings = append(bindings, fr.get(binding))
		}
		fr.env[instr] = &closure{instr.Fn.(*ssa.Function), bindings}

	case *ssa.Phi:
		panic("unreachable: phis are processed at block entry")

	case *ssa.Select:
		panic(unsupported{"select"})

	default:
		panic(fmt.Sprintf("unexpected instruction: %T", instr))
	}

	return kNext
}

// prepareCall determines the function value and argument values for a
// function call in a Call, Go or Defer instruction, performing
// interface method lookup if needed.
func prepareCall(fr *frame, call *ssa.CallCommon) (fn value, args []value) {
	v := fr.get(call.Value)
	if call.Method == nil {
		// Function call.
		fn = v
	} else {
		// Interface method invocation.
		recv := v.(iface)
		if recv.t == nil {
			rtPanic(fr.i, "runtime error: invalid memory address or nil pointer dereference")
		}
		if nm, ok := recv.v.(nativeMethods); ok {
			if f := nm.method(call.Method.Name()); f != nil {
				fn = f
				args = append(args, recv.v)
				for _, arg := range call.Args {
					args = append(args, fr.get(arg))
				}
				return
			}
		}
		if f := lookupMethod(fr.i, recv.t, call.Method); f == nil {
			// Unreachable in well-typed programs.
			panic(fmt.Sprintf("method set for dynamic type %v does not contain %s", recv.t, call.Method))
		} else {
			fn = f
		}
		args = append(args, recv.v)
	}
	for _, arg := range call.Args {
		args = append(args, fr.get(arg))
	}
	return
}

// call interprets a call to a function (function, builtin or closure)
// fn with arguments args, returning its result.
func call(i *interpreter, caller *frame, callpos token.Pos, fn value, args []value) value {
	switch fn := fn.(type) {
	case *ssa.Function:
		if fn == nil {
			rtPanic(i, "runtime error: invalid memory address or nil pointer dereference") // call of nil func
		}
		return callSSA(i, caller, callpos, fn, args, nil)
	case *closure:
		return callSSA(i, caller, callpos, fn.Fn, args, fn.Env)
	case *ssa.Builtin:
		return callBuiltin(caller, callpos, fn, args)
	case *nativeFn:
		return fn.fn(&frame{i: i, caller: caller}, args)
	}
	panic(fmt.Sprintf("cannot call %T", fn))
}

// callSSA interprets a call to function fn with arguments args,
// and lexical environment env, returning its result.
func callSSA(i *interpreter, caller *frame, callpos token.Pos, fn *ssa.Function, args []value, env []value) value {
	fr := &frame{
		i:      i,
		caller: caller, // for panic/recover
		fn:     fn,
	}
	if fn.Parent() == nil {
		name := fn.String()
		if ext := externals[name]; ext != nil {
			i.w.stubs[name]++
			return ext(fr, args)
		}
		if isRepoPkg(fn.Pkg) && strings.HasPrefix(fn.Name(), "verif") {
			if api := harnessAPI[fn.Name()]; api != nil {
				return api(fr, args)
			}
		}
		if fn.Pkg != nil && !isRepoPkg(fn.Pkg) {
			if fn.Name() == "init" && fn.Synthetic != "" {
				return nil // foreign package initialisers are never run
			}
			if r, ok := i.foreignCall(fr, fn, name, args); ok {
				return r
			}
		}
		if fn.Blocks == nil {
			panic(unsupported{"no code for function: " + name})
		}
	}

	// generic function body?
	if fn.TypeParams().Len() > 0 && len(fn.TypeArgs()) == 0 {
		panic("interp requires ssa.BuilderMode to include InstantiateGenerics to execute generics")
	}

	i.depth++
	if i.depth > i.w.eng.Opt.MaxDepth {
		panic(budgetExceeded{fmt.Sprintf("call depth > %d in %s", i.w.eng.Opt.MaxDepth, fn)})
	}
	i.stack = append(i.stack, fn)
	sp := len(i.stack)

	fr.env = make(map[ssa.Value]value)
	fr.block = fn.Blocks[0]
	fr.locals = make([]value, len(fn.Locals))
	for k, l := range fn.Locals {
		fr.locals[k] = zero(mustDeref(l.Type()))
		fr.env[l] = &fr.locals[k]
	}
	for k, p := range fn.Params {
		fr.env[p] = args[k]
	}
	for k, fv := range fn.FreeVars {
		fr.env[fv] = env[k]
	}
	for fr.block != nil {
		runFrame(fr)
	}
	i.depth--
	i.stack = i.stack[:sp-1]
	return fr.result
}

// runFrame executes SSA instructions starting at fr.block and
// continuing until a return, a panic, or a recovered panic.
func runFrame(fr *frame) {
	i := fr.i
	depth0, sp0 := i.depth, len(i.stack)
	defer func() {
		if fr.block == nil {
			return // normal return
		}
		p := recover()
		if isControl(p) {
			panic(p)
		}
		if s, ok := p.(string); ok && !strings.HasPrefix(s, "runtime error") {
			// interpreter-internal failure: not a target panic
			panic(p)
		}
		if re, ok := p.(runtime.Error); ok && strings.Contains(re.Error(), "interp.") {
			panic(p) // interpreter bug, let the path handler log it
		}
		fr.panicking = true
		fr.panic = p
		// unwind bookkeeping to this frame while target defers run
		if fr.defers == nil && fr.fn.Recover == nil {
			panic(p)
		}
		i.depth, i.stack = depth0, i.stack[:sp0]
		fr.runDefers()
		fr.block = fr.fn.Recover
	}()

	cov := i.w.cov[fr.fn]
	track := isRepoPkg(fr.fn.Pkg)
	if track && cov == nil {
		cov = map[ssa.Instruction]bool{}
		i.w.cov[fr.fn] = cov
	}
	for {
		nonPhis := executePhis(fr)
		for _, instr := range nonPhis {
			i.steps++
			if i.steps > i.w.eng.Opt.MaxSteps {
				panic(budgetExceeded{fmt.Sprintf("more than %d SSA instructions on one path", i.w.eng.Opt.MaxSteps)})
			}
			if track {
				cov[instr] = true
			}
			if visitInstr(fr, instr) == kReturn {
				return
			}
			// Inv: kNext (continue) or kJump (last instr)
		}
	}
}

// executePhis executes the phi-nodes at the start of the current
// block and returns the non-phi instructions.
func executePhis(fr *frame) []ssa.Instruction {
	firstNonPhi := -1
	for i, instr := range fr.block.Instrs {
		if _, ok := instr.(*ssa.Phi); !ok {
			firstNonPhi = i
			break
		}
	}
	// Inv: 0 <= firstNonPhi; every block contains a non-phi.

	nonPhis := fr.block.Instrs[firstNonPhi:]
	if firstNonPhi > 0 {
		phis := fr.block.Instrs[:firstNonPhi]
		predIndex := slices.Index(fr.block.Preds, fr.prevBlock)
		fr.phitemps = fr.phitemps[:0]
		for _, phi := range phis {
			phi := phi.(*ssa.Phi)
			fr.phitemps = append(fr.phitemps, fr.get(phi.Edges[predIndex]))
		}
		for i, phi := range phis {
			fr.env[phi.(*ssa.Phi)] = fr.phitemps[i]
		}
	}
	return nonPhis
}

// doRecover implements the recover() built-in.
func doRecover(caller *frame) value {
	// recover() must be exactly one level beneath the deferred
	// function (two levels beneath the panicking function) to
	// have any effect.  Thus we ignore both "defer recover()" and
	// "defer f() -> g() -> recover()".
	if caller != nil && !caller.panicking &&
		caller.caller != nil && caller.caller.panicking {
		caller.caller.panicking = false
		p := caller.caller.panic
		caller.caller.panic = nil

		switch p := p.(type) {
		case targetPanic:
			// The target program explicitly called panic().
			return p.v
		case runtime.Error:
			// The interpreter encountered a runtime error.
			return iface{runtimeErrorStringT, normalizeRuntimeErr(p.Error())}
		case string:
			// The interpreter explicitly called panic().
			return iface{runtimeErrorStringT, p}
		default:
			panic(fmt.Sprintf("unexpected panic type %T in target call to recover()", p))
		}
	}
	return iface{}
}

// panicString renders a target panic value for reports.
func (i *interpreter) panicString(v value) (s string) {
	defer func() {
		if r := recover(); r != nil {
			s = toString(v)
		}
	}()
	if it, ok := v.(iface); ok {
		if it.t == nil {
			return "nil"
		}
		if str, ok := it.v.(string); ok {
			return str
		}
		if types.Identical(it.t, runtimeErrorStringT) {
			return fmt.Sprint(it.v)
		}
		// error or Stringer
		for _, name := range []string{"Error", "String"} {
			if m := i.findMethod(it.t, name); m != nil {
				r := call(i, nil, token.NoPos, m, []value{it.v})
				return i.stringOf(r)
			}
		}
	}
	return toString(v)
}

func (i *interpreter) findMethod(t types.Type, name string) *ssa.Function {
	ms := i.prog.MethodSets.MethodSet(t)
	for k := 0; k < ms.Len(); k++ {
		if ms.At(k).Obj().Name() == name {
			return i.prog.MethodValue(ms.At(k))
		}
	}
	return nil
}

// stringOf renders a (possibly symbolic) string value for reports.
func (i *interpreter) stringOf(v value) string {
	switch v := v.(type) {
	case string:
		return v
	case symStr:
		return v.debug()
	}
	return toString(v)
}

func mustDeref(t types.Type) types.Type {
	if p, ok := t.Underlying().(*types.Pointer); ok {
		return p.Elem()
	}
	panic("mustDeref: not a pointer: " + t.String())
}

// Setup prepares program-wide state. Call once before Explore.
func Setup(prog *ssa.Program) {
	theProg = prog
	runtimePkg := prog.ImportedPackage("runtime")
	if runtimePkg == nil {
		panic("ssa.Program doesn't include runtime package")
	}
	runtimeErrorStringT = runtimePkg.Type("errorString").Object().Type()
	if p := prog.ImportedPackage("errors"); p != nil {
		errorsNewFn = p.Func("New")
	}
	initReflect(prog)
	if os.Getenv("SYMGO_DEBUG") != "" {
		fmt.Fprintln(os.Stderr, "setup done")
	}
}

func newInterpreter(prog *ssa.Program, w *Worker) *interpreter {
	return &interpreter{prog: prog, globals: make(map[*ssa.Global]*value), w: w, foreign: map[*ssa.Global]bool{}}
}
