package interp

// Intrinsics and summaries for the standard library and third-party
// functions the repository calls. Each is part of the trusted base and is
// listed in the evidence ("stubs") when hit.

import (
	"bytes"
	"fmt"
	"go/token"
	"go/types"
	"math"
	"net/http"
	"net/netip"
	"net/textproto"
	"net/url"
	"path"
	"path/filepath"
	"regexp"
	"sort"
	"strconv"
	"strings"
	"sync"
	"unicode"
	"unicode/utf16"
	"unicode/utf8"

	"golang.org/x/tools/go/ssa"

	"verif/engine/sym"
)

// ---------------------------------------------------------------------
// helpers

// ptrTo allocates a cell holding v and returns its address.
func ptrTo(v value) *value { p := new(value); *p = v; return p }

// lookupType finds a named type in a loaded package.
func lookupType(pkgPath, name string) types.Type {
	p := theProg.ImportedPackage(pkgPath)
	if p == nil {
		return nil
	}
	m := p.Type(name)
	if m == nil {
		return nil
	}
	return m.Type()
}

func (i *interpreter) foreignGlobalValue(pkgPath, name string) value {
	p := i.prog.ImportedPackage(pkgPath)
	if p == nil {
		panic(unsupported{"package not loaded: " + pkgPath})
	}
	g, _ := p.Members[name].(*ssa.Global)
	if g == nil {
		panic(unsupported{"no global " + pkgPath + "." + name})
	}
	return *i.global(g)
}

// callMethod calls method name on receiver of dynamic type t.
func (i *interpreter) callMethod(fr *frame, t types.Type, recv value, name string, args ...value) (value, bool) {
	if nm, ok := recv.(nativeMethods); ok {
		if f := nm.method(name); f != nil {
			return f.fn(fr, append([]value{recv}, args...)), true
		}
	}
	m := i.findMethod(t, name)
	if m == nil {
		return nil, false
	}
	return call(i, fr, token.NoPos, m, append([]value{recv}, args...)), true
}

// ---------------------------------------------------------------------
// fmt

func init() {
	externals["fmt.Sprintf"] = func(fr *frame, a []value) value {
		return fr.i.sprintf(fr, a[0], a[1].([]value))
	}
	externals["fmt.Errorf"] = func(fr *frame, a []value) value {
		i := fr.i
		args := a[1].([]value)
		msg := i.sprintf(fr, a[0], args)
		// %w: wrap the first error operand
		if f, ok := a[0].(string); ok && strings.Contains(f, "%w") {
			var wrapped value
			argn := 0
			for k := 0; k < len(f); k++ {
				if f[k] != '%' {
					continue
				}
				k++
				for k < len(f) && strings.IndexByte("+-# 0123456789.", f[k]) >= 0 {
					k++
				}
				if k >= len(f) {
					break
				}
				if f[k] == '%' {
					continue
				}
				if f[k] == 'w' && argn < len(args) && wrapped == nil {
					wrapped = args[argn]
				}
				argn++
			}
			if wt := lookupType("fmt", "wrapError"); wt != nil && wrapped != nil {
				return iface{t: types.NewPointer(wt), v: ptrTo(structure{msg, wrapped})}
			}
		}
		return i.newError(fr, msg)
	}
	externals["fmt.Sprint"] = func(fr *frame, a []value) value {
		i := fr.i
		var out value = ""
		prevStr := true
		for k, arg := range a[0].([]value) {
			_, isStr := arg.(iface).v.(string)
			if _, ok := arg.(iface).v.(symStr); ok {
				isStr = true
			}
			if k > 0 && !isStr && !prevStr {
				out = i.symStrBinop(token.ADD, out, " ")
			}
			prevStr = isStr
			out = i.symStrBinop(token.ADD, out, i.formatVerb(fr, 'v', "%v", arg))
		}
		return out
	}
	externals["fmt.Sprintln"] = func(fr *frame, a []value) value {
		i := fr.i
		var out value = ""
		for k, arg := range a[0].([]value) {
			if k > 0 {
				out = i.symStrBinop(token.ADD, out, " ")
			}
			out = i.symStrBinop(token.ADD, out, i.formatVerb(fr, 'v', "%v", arg))
		}
		return i.symStrBinop(token.ADD, out, "\n")
	}
	externals["fmt.Fprintf"] = func(fr *frame, a []value) value {
		i := fr.i
		s := i.sprintf(fr, a[1], a[2].([]value))
		w := a[0].(iface)
		r, ok := i.callMethod(fr, w.t, w.v, "Write", i.conv(types.NewSlice(types.Typ[types.Byte]), types.Typ[types.String], s))
		if !ok {
			panic(unsupported{"fmt.Fprintf to a writer without Write"})
		}
		return r
	}
	fprintTo := func(fr *frame, w iface, s value, what string) value {
		i := fr.i
		r, ok := i.callMethod(fr, w.t, w.v, "Write", i.conv(types.NewSlice(types.Typ[types.Byte]), types.Typ[types.String], s))
		if !ok {
			panic(unsupported{what + " to a writer without Write"})
		}
		return r
	}
	externals["fmt.Fprintln"] = func(fr *frame, a []value) value {
		return fprintTo(fr, a[0].(iface), externals["fmt.Sprintln"](fr, a[1:]), "fmt.Fprintln")
	}
	externals["fmt.Fprint"] = func(fr *frame, a []value) value {
		return fprintTo(fr, a[0].(iface), externals["fmt.Sprint"](fr, a[1:]), "fmt.Fprint")
	}
	externals["fmt.Println"] = func(fr *frame, a []value) value { return tuple{0, iface{}} }
	externals["fmt.Printf"] = func(fr *frame, a []value) value { return tuple{0, iface{}} }
	externals["fmt.Print"] = func(fr *frame, a []value) value { return tuple{0, iface{}} }
	externals["log.Printf"] = func(fr *frame, a []value) value { return nil }
	externals["log.Println"] = func(fr *frame, a []value) value { return nil }
}

// sprintf formats with engine values. Concrete basic operands are formatted
// by the real fmt; errors/Stringers are rendered by calling their methods in
// the interpreter; symbolic strings keep their bytes; symbolic numbers become
// opaque pieces.
func (i *interpreter) sprintf(fr *frame, format value, args []value) value {
	f, ok := format.(string)
	if !ok {
		panic(unsupported{"fmt with a symbolic format string"})
	}
	var out value = ""
	argn := 0
	emit := func(s value) { out = i.symStrBinop(token.ADD, out, s) }
	lit := 0
	for k := 0; k < len(f); k++ {
		if f[k] != '%' {
			continue
		}
		emit(f[lit:k])
		st := k
		k++
		for k < len(f) && strings.IndexByte("+-# 0123456789.*[]", f[k]) >= 0 {
			k++
		}
		if k >= len(f) {
			emit("%!(NOVERB)")
			lit = k
			break
		}
		verb := f[k]
		lit = k + 1
		if verb == '%' {
			emit("%")
			continue
		}
		if argn >= len(args) {
			emit("%!" + string(verb) + "(MISSING)")
			continue
		}
		arg := args[argn]
		argn++
		emit(i.formatVerb(fr, verb, f[st:k+1], arg))
	}
	emit(f[lit:])
	if argn < len(args) {
		emit("%!(EXTRA)")
	}
	return out
}

// formatVerb renders one operand (an `any` interface value).
func (i *interpreter) formatVerb(fr *frame, verb byte, spec string, arg value) value {
	it, _ := arg.(iface)
	if verb == 'w' {
		verb = 'v'
		spec = strings.Replace(spec, "w", "v", 1)
	}
	if verb == 'T' {
		if it.t == nil {
			return "<nil>"
		}
		return typeString(it.t)
	}
	if it.t == nil {
		switch verb {
		case 'v', 's':
			if verb == 's' {
				return "%!s(<nil>)"
			}
			return "<nil>"
		}
		return "%!" + string(verb) + "(<nil>)"
	}
	v := it.v
	// symbolic leaves
	switch x := v.(type) {
	case symStr:
		switch verb {
		case 's', 'v':
			return x
		case 'q':
			return i.symStrBinop(token.ADD, i.symStrBinop(token.ADD, "\"", x), "\"")
		}
		panic(unsupported{"fmt verb " + string(verb) + " on a symbolic string"})
	case symVal:
		if x.k == types.Bool {
			if i.truth(x) {
				return "true"
			}
			return "false"
		}
		return symStr{[]value{opaque{x.t.String()}}}
	}
	// error / Stringer methods take precedence for %v %s %q
	if verb == 'v' || verb == 's' || verb == 'q' {
		if !strings.Contains(spec, "#") {
			for _, name := range []string{"Error", "String"} {
				if name == "String" && !hasStringMethod(i, it.t) {
					continue
				}
				if name == "Error" && !hasErrorMethod(i, it.t) {
					continue
				}
				if p, ok := v.(*value); ok && p == nil {
					return "<nil>"
				}
				r, ok := i.callMethod(fr, it.t, v, name)
				if ok {
					if verb == 'q' {
						if s, ok := r.(string); ok {
							return strconv.Quote(s)
						}
						return i.symStrBinop(token.ADD, i.symStrBinop(token.ADD, "\"", r), "\"")
					}
					return r
				}
			}
		}
	}
	switch x := v.(type) {
	case bool, int, int8, int16, int32, int64, uint, uint8, uint16, uint32, uint64, uintptr, float32, float64, string, complex64, complex128:
		return fmt.Sprintf(spec, x)
	}
	// composite values: approximate Go's %v rendering, keeping symbolic bytes
	return i.formatComposite(fr, verb, it.t, v, 0)
}

func hasErrorMethod(i *interpreter, t types.Type) bool {
	m := i.prog.MethodSets.MethodSet(t).Lookup(nil, "Error")
	if m == nil {
		return false
	}
	sig := m.Type().(*types.Signature)
	return sig.Params().Len() == 0 && sig.Results().Len() == 1
}

func hasStringMethod(i *interpreter, t types.Type) bool {
	m := i.prog.MethodSets.MethodSet(t).Lookup(nil, "String")
	if m == nil {
		return false
	}
	sig := m.Type().(*types.Signature)
	return sig.Params().Len() == 0 && sig.Results().Len() == 1
}

func typeString(t types.Type) string {
	return types.TypeString(t, func(p *types.Package) string { return p.Name() })
}

func (i *interpreter) formatComposite(fr *frame, verb byte, t types.Type, v value, depth int) value {
	cat := func(parts ...value) value {
		var out value = ""
		for _, p := range parts {
			out = i.symStrBinop(token.ADD, out, p)
		}
		return out
	}
	if depth > 8 {
		return "..."
	}
	elem := func(et types.Type, ev value) value {
		if it, ok := ev.(iface); ok {
			return i.formatVerb(fr, 'v', "%v", it)
		}
		return i.formatVerb(fr, 'v', "%v", iface{t: et, v: ev})
	}
	switch x := v.(type) {
	case iface:
		return i.formatVerb(fr, verb, "%"+string(verb), x)
	case []value:
		et := types.Type(types.Typ[types.Invalid])
		if st, ok := t.Underlying().(*types.Slice); ok {
			et = st.Elem()
		}
		var out value = "["
		for k, e := range x {
			if k > 0 {
				out = cat(out, " ")
			}
			out = cat(out, elem(et, e))
		}
		return cat(out, "]")
	case array:
		et := t.Underlying().(*types.Array).Elem()
		var out value = "["
		for k, e := range x {
			if k > 0 {
				out = cat(out, " ")
			}
			out = cat(out, elem(et, e))
		}
		return cat(out, "]")
	case *omap:
		mt, _ := t.Underlying().(*types.Map)
		var out value = "map["
		if x != nil {
			for k, p := range x.order() {
				if k > 0 {
					out = cat(out, " ")
				}
				out = cat(out, elem(mt.Key(), x.keys[p]), ":", elem(mt.Elem(), x.vals[p]))
			}
		}
		return cat(out, "]")
	case structure:
		st, ok := t.Underlying().(*types.Struct)
		var out value = "{"
		for k, e := range x {
			if k > 0 {
				out = cat(out, " ")
			}
			if ok {
				out = cat(out, elem(st.Field(k).Type(), e))
			} else {
				out = cat(out, "?")
			}
		}
		return cat(out, "}")
	case *value:
		if x == nil {
			return "<nil>"
		}
		if pt, ok := t.Underlying().(*types.Pointer); ok && depth == 0 {
			if _, ok := pt.Elem().Underlying().(*types.Struct); ok {
				return cat("&", i.formatComposite(fr, verb, pt.Elem(), *x, depth+1))
			}
		}
		return "0xc000000000"
	case *ssa.Function, *closure, *nativeFn:
		return "0x400000"
	}
	return fmt.Sprintf("<%T>", v)
}

// ---------------------------------------------------------------------
// errors (reflectlite-free versions of Is / As)

func init() {
	externals["errors.Is"] = func(fr *frame, a []value) value {
		return fr.i.errorsIs(fr, a[0].(iface), a[1].(iface), 0)
	}
	externals["errors.As"] = func(fr *frame, a []value) value {
		return fr.i.errorsAs(fr, a[0].(iface), a[1].(iface), 0)
	}
}

func (i *interpreter) errorsIs(fr *frame, err, target iface, depth int) value {
	if err.t == nil || target.t == nil {
		return err.t == nil && target.t == nil
	}
	if depth > 50 {
		panic(budgetExceeded{"errors.Is unwrap depth > 50"})
	}
	if types.Comparable(target.t) && sameType(err.t, target.t) {
		if i.truth(i.equalsV(err.t, err.v, target.v)) {
			return true
		}
	}
	if m := i.prog.MethodSets.MethodSet(err.t).Lookup(nil, "Is"); m != nil {
		if r, ok := i.callMethod(fr, err.t, err.v, "Is", target); ok {
			if i.truth(r) {
				return true
			}
		}
	}
	for _, u := range i.unwrapAll(fr, err) {
		if i.truth(i.errorsIs(fr, u, target, depth+1)) {
			return true
		}
	}
	return false
}

func (i *interpreter) unwrapAll(fr *frame, err iface) []iface {
	m := i.prog.MethodSets.MethodSet(err.t).Lookup(nil, "Unwrap")
	if m == nil {
		return nil
	}
	sig := m.Type().(*types.Signature)
	if sig.Params().Len() != 0 || sig.Results().Len() != 1 {
		return nil
	}
	r, ok := i.callMethod(fr, err.t, err.v, "Unwrap")
	if !ok {
		return nil
	}
	switch r := r.(type) {
	case iface:
		if r.t == nil {
			return nil
		}
		return []iface{r}
	case []value:
		var out []iface
		for _, e := range r {
			if e.(iface).t != nil {
				out = append(out, e.(iface))
			}
		}
		return out
	}
	return nil
}

func (i *interpreter) errorsAs(fr *frame, err, target iface, depth int) value {
	if err.t == nil {
		return false
	}
	if target.t == nil {
		rtPanic(i, "errors: target cannot be nil")
	}
	pt, ok := target.t.Underlying().(*types.Pointer)
	if !ok || target.v.(*value) == nil {
		rtPanic(i, "errors: target must be a non-nil pointer")
	}
	if depth > 50 {
		panic(budgetExceeded{"errors.As unwrap depth > 50"})
	}
	T := pt.Elem()
	cell := target.v.(*value)
	if it, ok := T.Underlying().(*types.Interface); ok {
		if types.Implements(err.t, it) || types.Implements(types.NewPointer(err.t), it) && false {
			*cell = err
			return true
		}
	} else if types.Identical(err.t, T) {
		store(T, cell, err.v)
		return true
	}
	if m := i.prog.MethodSets.MethodSet(err.t).Lookup(nil, "As"); m != nil {
		if r, ok := i.callMethod(fr, err.t, err.v, "As", target); ok {
			if i.truth(r) {
				return true
			}
		}
	}
	for _, u := range i.unwrapAll(fr, err) {
		if i.truth(i.errorsAs(fr, u, target, depth+1)) {
			return true
		}
	}
	return false
}

// ---------------------------------------------------------------------
// math, math/big

type nativeBigFloat struct{ f value } // float64 or symVal

func (nativeBigFloat) isNativeHandle() {}

func init() {
	externals["math.IsNaN"] = func(fr *frame, a []value) value {
		if s, ok := a[0].(symVal); ok {
			return fr.i.boolSym(fr.i.ctx().IsNaN(s.t))
		}
		return math.IsNaN(a[0].(float64))
	}
	externals["math.IsInf"] = func(fr *frame, a []value) value {
		i := fr.i
		if s, ok := a[0].(symVal); ok {
			c := i.ctx()
			sign := i.concretize(a[1])
			if s.t.FromIntConv() {
				return false
			}
			if r, ok := c.LiftUnary(s.t, func(l *sym.Term) *sym.Term {
				return c.BoolLit(math.IsInf(math.Float64frombits(l.CBits), int(sign)))
			}); ok {
				return i.boolSym(r)
			}
			inf := c.App("fp.isInfinite", sym.Bool, s.t)
			switch {
			case sign > 0:
				return i.boolSym(c.And(inf, c.App("fp.isPositive", sym.Bool, s.t)))
			case sign < 0:
				return i.boolSym(c.And(inf, c.App("fp.isNegative", sym.Bool, s.t)))
			}
			return i.boolSym(inf)
		}
		return math.IsInf(a[0].(float64), int(i.concretize(a[1])))
	}
	externals["math.Abs"] = func(fr *frame, a []value) value {
		if s, ok := a[0].(symVal); ok {
			return symVal{fr.i.ctx().App("fp.abs", sym.F64, s.t), types.Float64}
		}
		return math.Abs(a[0].(float64))
	}
	externals["math.Float64bits"] = func(fr *frame, a []value) value {
		if _, ok := a[0].(symVal); ok {
			return fr.i.floatBits(a[0])
		}
		return math.Float64bits(a[0].(float64))
	}
	externals["math.Float64frombits"] = func(fr *frame, a []value) value {
		if s, ok := a[0].(symVal); ok {
			return symVal{fr.i.ctx().App("(_ to_fp 11 53)", sym.F64, s.t), types.Float64}
		}
		return math.Float64frombits(a[0].(uint64))
	}
	for name, f := range map[string]func(float64) float64{
		"math.Floor": math.Floor, "math.Ceil": math.Ceil, "math.Trunc": math.Trunc, "math.Sqrt": math.Sqrt,
		"math.Log": math.Log, "math.Exp": math.Exp, "math.Log10": math.Log10, "math.Round": math.Round,
	} {
		name, f := name, f
		externals[name] = func(fr *frame, a []value) value {
			if s, ok := a[0].(symVal); ok {
				c := fr.i.ctx()
				switch name {
				case "math.Floor":
					return symVal{c.App("fp.roundToIntegral RTN", sym.F64, s.t), types.Float64}
				case "math.Ceil":
					return symVal{c.App("fp.roundToIntegral RTP", sym.F64, s.t), types.Float64}
				case "math.Trunc":
					return symVal{c.App("fp.roundToIntegral RTZ", sym.F64, s.t), types.Float64}
				case "math.Round":
					return symVal{c.App("fp.roundToIntegral RNA", sym.F64, s.t), types.Float64}
				}
				panic(unsupported{name + " on a symbolic operand"})
			}
			return f(a[0].(float64))
		}
	}
	externals["math.Inf"] = func(fr *frame, a []value) value { return math.Inf(int(fr.i.concretize(a[0]))) }
	externals["math.NaN"] = func(fr *frame, a []value) value { return math.NaN() }
	externals["math.Pow"] = func(fr *frame, a []value) value {
		if !allConcrete(a) {
			panic(unsupported{"math.Pow on a symbolic operand"})
		}
		return math.Pow(a[0].(float64), a[1].(float64))
	}
	externals["math.Mod"] = func(fr *frame, a []value) value {
		if !allConcrete(a) {
			panic(unsupported{"math.Mod on a symbolic operand"})
		}
		return math.Mod(a[0].(float64), a[1].(float64))
	}

	// math/big: never interpreted (assembly kernels); only the NewFloat(x).IsInt() idiom.
	externals["math/big.NewFloat"] = func(fr *frame, a []value) value {
		i := fr.i
		if i.truth(i.binop(token.NEQ, types.Typ[types.Float64], a[0], a[0])) {
			// big.NewFloat(NaN) panics with big.ErrNaN
			et := lookupType("math/big", "ErrNaN")
			if et != nil {
				panic(targetPanic{v: iface{t: et, v: structure{"NewFloat(NaN)"}}})
			}
			rtPanic(i, "big.ErrNaN: NewFloat(NaN)")
		}
		return ptrTo(nativeBigFloat{a[0]})
	}
	externals["(*math/big.Float).IsInt"] = func(fr *frame, a []value) value {
		i := fr.i
		b := (*(a[0].(*value))).(nativeBigFloat)
		switch f := b.f.(type) {
		case float64:
			if math.IsInf(f, 0) {
				return false
			}
			return f == math.Trunc(f)
		case symVal:
			c := i.ctx()
			if f.t.FromIntConv() {
				return true // a float converted from an integer is integral
			}
			if r, ok := c.LiftUnary(f.t, func(l *sym.Term) *sym.Term {
				x := math.Float64frombits(l.CBits)
				return c.BoolLit(!math.IsInf(x, 0) && x == math.Trunc(x))
			}); ok {
				return i.boolSym(r)
			}
			i.w.usedUF = true
			return i.boolSym(c.App("f.isint", sym.Bool, f.t))
		}
		panic("IsInt")
	}
}

// floatBits returns the IEEE bit pattern of a (non-NaN) float64 as a uint64 value.
func (i *interpreter) floatBits(v value) value {
	switch f := v.(type) {
	case float64:
		return math.Float64bits(f)
	case symVal:
		// fresh bit-vector b with to_fp(b) = f  (NaN payloads are not distinguished)
		c := i.ctx()
		b := c.Var(fmt.Sprintf("bits_of_t%d", f.t.ID), sym.BV64)
		i.lemma(c.Eq(c.App("(_ to_fp 11 53)", sym.F64, b), f.t))
		return symVal{b, types.Uint64}
	}
	panic(fmt.Sprintf("floatBits %T", v))
}

// ---------------------------------------------------------------------
// regexp (native handles; matching on symbolic strings is an uninterpreted predicate)

type nativeRegexp struct{ re *regexp.Regexp }

func (*nativeRegexp) isNativeHandle() {}

func regexpOf(v value) *regexp.Regexp {
	p := v.(*value)
	if p == nil {
		panic(targetPanic{v: iface{t: runtimeErrorStringT, v: "runtime error: invalid memory address or nil pointer dereference"}})
	}
	return (*p).(*nativeRegexp).re
}

func init() {
	externals["regexp.MustCompile"] = func(fr *frame, a []value) value {
		s, ok := a[0].(string)
		if !ok {
			panic(unsupported{"regexp.MustCompile of a symbolic pattern"})
		}
		re, err := regexp.Compile(s)
		if err != nil {
			rtPanic(fr.i, "regexp: Compile("+strconv.Quote(s)+"): "+err.Error())
		}
		return ptrTo(&nativeRegexp{re})
	}
	externals["regexp.Compile"] = func(fr *frame, a []value) value {
		s, ok := a[0].(string)
		if !ok {
			panic(unsupported{"regexp.Compile of a symbolic pattern"})
		}
		re, err := regexp.Compile(s)
		if err != nil {
			return tuple{(*value)(nil), fr.i.nativeError(fr, err)}
		}
		return tuple{ptrTo(&nativeRegexp{re}), iface{}}
	}
	externals["regexp.MatchString"] = func(fr *frame, a []value) value {
		p, ok1 := a[0].(string)
		s, ok2 := a[1].(string)
		if !ok1 || !ok2 {
			panic(unsupported{"regexp.MatchString on symbolic operands"})
		}
		m, err := regexp.MatchString(p, s)
		if err != nil {
			return tuple{false, fr.i.nativeError(fr, err)}
		}
		return tuple{m, iface{}}
	}
	externals["regexp.Match"] = func(fr *frame, a []value) value {
		p, ok1 := a[0].(string)
		b, ok2 := bytesOf(a[1])
		if !ok1 || !ok2 {
			panic(unsupported{"regexp.Match on symbolic operands"})
		}
		m, err := regexp.Match(p, b)
		if err != nil {
			return tuple{false, fr.i.nativeError(fr, err)}
		}
		return tuple{m, iface{}}
	}
	externals["(*regexp.Regexp).MatchString"] = func(fr *frame, a []value) value {
		re := regexpOf(a[0])
		switch s := a[1].(type) {
		case string:
			return re.MatchString(s)
		case symStr:
			return fr.i.reMatchSym(re, s)
		}
		panic("MatchString")
	}
	externals["(*regexp.Regexp).String"] = func(fr *frame, a []value) value { return regexpOf(a[0]).String() }
	externals["(*regexp.Regexp).FindStringSubmatch"] = func(fr *frame, a []value) value {
		s, ok := a[1].(string)
		if !ok {
			panic(unsupported{"FindStringSubmatch on a symbolic string"})
		}
		r := regexpOf(a[0]).FindStringSubmatch(s)
		if r == nil {
			return []value(nil)
		}
		out := make([]value, len(r))
		for k := range r {
			out[k] = r[k]
		}
		return out
	}
	externals["(*regexp.Regexp).FindAllStringSubmatch"] = func(fr *frame, a []value) value {
		s, ok := a[1].(string)
		if !ok {
			panic(unsupported{"FindAllStringSubmatch on a symbolic string"})
		}
		r := regexpOf(a[0]).FindAllStringSubmatch(s, int(fr.i.concretize(a[2])))
		if r == nil {
			return []value(nil)
		}
		out := make([]value, len(r))
		for k := range r {
			in := make([]value, len(r[k]))
			for j := range r[k] {
				in[j] = r[k][j]
			}
			out[k] = in
		}
		return out
	}
	externals["(*regexp.Regexp).ReplaceAllString"] = func(fr *frame, a []value) value {
		s, ok1 := a[1].(string)
		r, ok2 := a[2].(string)
		if !ok1 || !ok2 {
			panic(unsupported{"ReplaceAllString on symbolic operands"})
		}
		return regexpOf(a[0]).ReplaceAllString(s, r)
	}
	externals["(*regexp.Regexp).ReplaceAllStringFunc"] = func(fr *frame, a []value) value {
		s, ok1 := a[1].(string)
		if !ok1 {
			panic(unsupported{"ReplaceAllStringFunc on symbolic operands"})
		}
		return regexpOf(a[0]).ReplaceAllStringFunc(s, func(m string) string {
			r := call(fr.i, fr, token.NoPos, a[2], []value{m})
			rs, ok := r.(string)
			if !ok {
				panic(unsupported{"ReplaceAllStringFunc callback returned a symbolic string"})
			}
			return rs
		})
	}
	externals["(*regexp.Regexp).FindAllString"] = func(fr *frame, a []value) value {
		s, ok := a[1].(string)
		if !ok {
			panic(unsupported{"FindAllString on a symbolic string"})
		}
		r := regexpOf(a[0]).FindAllString(s, int(fr.i.concretize(a[2])))
		if r == nil {
			return []value(nil)
		}
		out := make([]value, len(r))
		for k := range r {
			out[k] = r[k]
		}
		return out
	}
	externals["regexp.QuoteMeta"] = func(fr *frame, a []value) value {
		s, ok := a[0].(string)
		if !ok {
			panic(unsupported{"QuoteMeta on a symbolic string"})
		}
		return regexp.QuoteMeta(s)
	}
}

// reMatchSym: match verdict of a concrete regexp on a symbolic string.
// The verdict is a fresh Boolean per (pattern, byte-vector); identical
// byte vectors share it (function consistency by hash-consing the name).
func (i *interpreter) reMatchSym(re *regexp.Regexp, s symStr) value {
	if v, ok := i.reMatchExact(re, s); ok {
		return v
	}
	c := i.ctx()
	var sb strings.Builder
	fmt.Fprintf(&sb, "re%x", hashStr(re.String()))
	for _, b := range s.b {
		switch b := b.(type) {
		case uint8:
			fmt.Fprintf(&sb, "_c%02x", b)
		case symVal:
			fmt.Fprintf(&sb, "_t%d", b.t.ID)
		default:
			panic(unsupported{"regexp match on a string containing a formatted symbolic number"})
		}
	}
	return symVal{c.Var(sb.String(), sym.Bool), types.Bool}
}

func hashStr(s string) uint32 {
	var h uint32 = 2166136261
	for k := 0; k < len(s); k++ {
		h ^= uint32(s[k])
		h *= 16777619
	}
	return h
}

// ---------------------------------------------------------------------
// sync (sequential models)

func init() {
	// sync.Once: struct{ done atomic.Uint32; m Mutex } -- we keep our own flag in field 0.
	externals["(*sync.Once).Do"] = func(fr *frame, a []value) value {
		cell := a[0].(*value)
		st := (*cell).(structure)
		if done, _ := st[len(st)-1].(onceDone); bool(done) {
			return nil
		}
		fr.i.syncDepth++
		st[len(st)-1] = onceDone(true)
		call(fr.i, fr, token.NoPos, a[1], nil)
		fr.i.syncDepth--
		return nil
	}
	for _, n := range []string{"(*sync.Mutex).Lock", "(*sync.RWMutex).Lock"} {
		externals[n] = func(fr *frame, a []value) value { fr.i.syncDepth++; return nil }
	}
	for _, n := range []string{"(*sync.Mutex).Unlock", "(*sync.RWMutex).Unlock"} {
		externals[n] = func(fr *frame, a []value) value {
			if fr.i.syncDepth > 0 {
				fr.i.syncDepth--
			}
			return nil
		}
	}
	// a read lock admits other readers: it licenses reads, not writes (a write to shared memory under
	// RLock alone is reported by the footprint monitor like any unsynchronised write)
	externals["(*sync.RWMutex).RLock"] = func(fr *frame, a []value) value { return nil }
	externals["(*sync.RWMutex).RUnlock"] = func(fr *frame, a []value) value { return nil }
	// sync.Map: the struct's last field is replaced by an *omap on first use.
	smap := func(fr *frame, recv value, create bool) *omap {
		cell := recv.(*value)
		st := (*cell).(structure)
		if m, ok := st[len(st)-1].(*omap); ok && m != nil {
			return m
		}
		if !create {
			return nil
		}
		m := makeMap(types.NewInterfaceType(nil, nil), 0)
		st[len(st)-1] = m
		return m
	}
	externals["(*sync.Map).Load"] = func(fr *frame, a []value) value {
		m := smap(fr, a[0], false)
		if m == nil {
			return tuple{iface{}, false}
		}
		v, ok := m.lookup(fr.i, a[1])
		if !ok {
			return tuple{iface{}, false}
		}
		return tuple{v, true}
	}
	// what goes into a shared sync.Map is published to every goroutine (footprint monitor)
	publish := func(fr *frame, recv value, m *omap, k, v value) {
		if sh := fr.i.shared; sh != nil && sh.cells[recv.(*value)] {
			sh.maps[m] = true
			sh.publish(k)
			sh.publish(v)
		}
	}
	externals["(*sync.Map).Store"] = func(fr *frame, a []value) value {
		m := smap(fr, a[0], true)
		m.insert(fr.i, a[1], a[2])
		publish(fr, a[0], m, a[1], a[2])
		return nil
	}
	externals["(*sync.Map).LoadOrStore"] = func(fr *frame, a []value) value {
		m := smap(fr, a[0], true)
		if v, ok := m.lookup(fr.i, a[1]); ok {
			return tuple{v, true}
		}
		m.insert(fr.i, a[1], a[2])
		publish(fr, a[0], m, a[1], a[2])
		return tuple{a[2], false}
	}
	externals["(*sync.Map).Delete"] = func(fr *frame, a []value) value {
		if m := smap(fr, a[0], false); m != nil {
			m.delete(fr.i, a[1])
		}
		return nil
	}
	externals["(*sync.Map).Range"] = func(fr *frame, a []value) value {
		m := smap(fr, a[0], false)
		if m == nil {
			return nil
		}
		it := newMapIter(m)
		for {
			t := it.next(fr)
			if !t[0].(bool) {
				return nil
			}
			if !fr.i.truth(call(fr.i, fr, token.NoPos, a[1], []value{t[1], t[2]})) {
				return nil
			}
		}
	}
}

type onceDone bool

// ---------------------------------------------------------------------
// strings.Builder (unsafe-free model: buf is field 1 as []byte)

func init() {
	sbBuf := func(recv value) *value {
		st := (*(recv.(*value))).(structure)
		return &st[1]
	}
	appendStr := func(fr *frame, recv value, s value) {
		p := sbBuf(recv)
		cur, _ := (*p).([]value)
		*p = append(cur, toSymStr(s).b...)
	}
	externals["(*strings.Builder).WriteString"] = func(fr *frame, a []value) value {
		appendStr(fr, a[0], a[1])
		return tuple{len(toSymStr(a[1]).b), iface{}}
	}
	externals["(*strings.Builder).WriteByte"] = func(fr *frame, a []value) value {
		p := sbBuf(a[0])
		cur, _ := (*p).([]value)
		*p = append(cur, a[1])
		return iface{}
	}
	externals["(*strings.Builder).WriteRune"] = func(fr *frame, a []value) value {
		r, ok := a[1].(int32)
		if !ok {
			sv := a[1].(symVal)
			// ASCII only
			if fr.i.truth(fr.i.symBinop(token.LSS, sv, int32(0x80))) && fr.i.truth(fr.i.symBinop(token.GEQ, sv, int32(0))) {
				p := sbBuf(a[0])
				cur, _ := (*p).([]value)
				*p = append(cur, fr.i.symConv(types.Uint8, sv))
				return tuple{1, iface{}}
			}
			panic(unsupported{"WriteRune of a symbolic non-ASCII rune"})
		}
		s := string(r)
		appendStr(fr, a[0], s)
		return tuple{len(s), iface{}}
	}
	externals["(*strings.Builder).Write"] = func(fr *frame, a []value) value {
		p := sbBuf(a[0])
		cur, _ := (*p).([]value)
		src := a[1].([]value)
		*p = append(cur, src...)
		return tuple{len(src), iface{}}
	}
	externals["(*strings.Builder).String"] = func(fr *frame, a []value) value {
		cur, _ := (*sbBuf(a[0])).([]value)
		return symStr{append([]value(nil), cur...)}.norm()
	}
	externals["(*strings.Builder).Len"] = func(fr *frame, a []value) value {
		cur, _ := (*sbBuf(a[0])).([]value)
		return len(cur)
	}
	externals["(*strings.Builder).Grow"] = func(fr *frame, a []value) value { return nil }
	externals["(*strings.Builder).Reset"] = func(fr *frame, a []value) value {
		*sbBuf(a[0]) = []value(nil)
		return nil
	}
	externals["(*bytes.Buffer).String"] = func(fr *frame, a []value) value {
		p := a[0].(*value)
		if p == nil {
			return "<nil>"
		}
		st := (*p).(structure)
		buf, _ := st[0].([]value)
		off := st[1].(int)
		return symStr{append([]value(nil), buf[off:]...)}.norm()
	}
}

// ---------------------------------------------------------------------
// strconv: natively on concrete input; *strconv.NumError built as an
// interpreted value (the repository type-asserts on it).

func (i *interpreter) numError(fr *frame, fn string, num value, err error) value {
	ne, ok := err.(*strconv.NumError)
	t := lookupType("strconv", "NumError")
	if !ok || t == nil {
		return i.nativeError(fr, err)
	}
	var inner value
	switch ne.Err {
	case strconv.ErrSyntax:
		inner = i.foreignGlobalValue("strconv", "ErrSyntax")
	case strconv.ErrRange:
		inner = i.foreignGlobalValue("strconv", "ErrRange")
	default:
		inner = i.nativeError(fr, ne.Err)
	}
	return iface{t: types.NewPointer(t), v: ptrTo(structure{ne.Func, ne.Num, inner})}
}

func init() {
	externals["strconv.ParseFloat"] = func(fr *frame, a []value) value {
		s, ok := a[0].(string)
		if !ok {
			return fr.i.parseSym(fr, "ParseFloat", a[0].(symStr), types.Float64, 0, int(fr.i.concretize(a[1])))
		}
		f, err := strconv.ParseFloat(s, int(fr.i.concretize(a[1])))
		if err != nil {
			return tuple{f, fr.i.numError(fr, "ParseFloat", s, err)}
		}
		return tuple{f, iface{}}
	}
	externals["strconv.ParseInt"] = func(fr *frame, a []value) value {
		s, ok := a[0].(string)
		if !ok {
			return fr.i.parseSym(fr, "ParseInt", a[0].(symStr), types.Int64, int(fr.i.concretize(a[1])), int(fr.i.concretize(a[2])))
		}
		n, err := strconv.ParseInt(s, int(fr.i.concretize(a[1])), int(fr.i.concretize(a[2])))
		if err != nil {
			return tuple{n, fr.i.numError(fr, "ParseInt", s, err)}
		}
		return tuple{n, iface{}}
	}
	externals["strconv.ParseUint"] = func(fr *frame, a []value) value {
		s, ok := a[0].(string)
		if !ok {
			return fr.i.parseSym(fr, "ParseUint", a[0].(symStr), types.Uint64, int(fr.i.concretize(a[1])), int(fr.i.concretize(a[2])))
		}
		n, err := strconv.ParseUint(s, int(fr.i.concretize(a[1])), int(fr.i.concretize(a[2])))
		if err != nil {
			return tuple{n, fr.i.numError(fr, "ParseUint", s, err)}
		}
		return tuple{n, iface{}}
	}
	externals["strconv.Atoi"] = func(fr *frame, a []value) value {
		s, ok := a[0].(string)
		if !ok {
			return fr.i.parseSym(fr, "Atoi", a[0].(symStr), types.Int, 10, 0)
		}
		n, err := strconv.Atoi(s)
		if err != nil {
			return tuple{n, fr.i.numError(fr, "Atoi", s, err)}
		}
		return tuple{n, iface{}}
	}
	externals["strconv.ParseBool"] = func(fr *frame, a []value) value {
		s, ok := a[0].(string)
		if !ok {
			return fr.i.parseBoolSym(fr, a[0].(symStr))
		}
		b, err := strconv.ParseBool(s)
		if err != nil {
			return tuple{b, fr.i.numError(fr, "ParseBool", s, err)}
		}
		return tuple{b, iface{}}
	}
	externals["strconv.Itoa"] = func(fr *frame, a []value) value {
		if sv, ok := a[0].(symVal); ok {
			return fr.i.itoaSym(sv)
		}
		return strconv.Itoa(a[0].(int))
	}
	externals["strconv.FormatInt"] = func(fr *frame, a []value) value {
		base := int(fr.i.concretize(a[1]))
		if sv, ok := a[0].(symVal); ok {
			if base != 10 {
				panic(unsupported{"FormatInt of a symbolic value in base != 10"})
			}
			return fr.i.itoaSym(sv)
		}
		return strconv.FormatInt(a[0].(int64), base)
	}
	externals["strconv.FormatUint"] = func(fr *frame, a []value) value {
		if !allConcrete(a) {
			panic(unsupported{"FormatUint of a symbolic value"})
		}
		return strconv.FormatUint(a[0].(uint64), a[1].(int))
	}
	externals["strconv.FormatFloat"] = func(fr *frame, a []value) value {
		if sv, ok := a[0].(symVal); ok {
			return symStr{[]value{opaque{sv.t.String()}}}
		}
		return strconv.FormatFloat(a[0].(float64), a[1].(byte), int(fr.i.concretize(a[2])), int(fr.i.concretize(a[3])))
	}
	externals["strconv.FormatBool"] = func(fr *frame, a []value) value {
		if fr.i.truth(a[0]) {
			return "true"
		}
		return "false"
	}
	externals["strconv.Quote"] = func(fr *frame, a []value) value {
		switch s := a[0].(type) {
		case string:
			return strconv.Quote(s)
		case symStr:
			return fr.i.symStrBinop(token.ADD, fr.i.symStrBinop(token.ADD, "\"", s), "\"")
		}
		panic("Quote")
	}
	externals["strconv.Unquote"] = func(fr *frame, a []value) value {
		s, ok := a[0].(string)
		if !ok {
			panic(unsupported{"Unquote of a symbolic string"})
		}
		r, err := strconv.Unquote(s)
		if err != nil {
			return tuple{r, fr.i.nativeError(fr, err)}
		}
		return tuple{r, iface{}}
	}
}

// itoaSym: decimal text of a symbolic integer. The number of digits is
// forked (path condition), each digit is bit-vector arithmetic. Only
// non-negative values below 10^6 are supported; others end the path.
func (i *interpreter) itoaSym(sv symVal) value {
	c := i.ctx()
	w := kindWidth(sv.k)
	lit := func(n uint64) value { return concreteOfKind(sv.k, n) }
	if kindSigned(sv.k) && i.truth(i.symBinop(token.LSS, sv, lit(0))) {
		panic(unsupported{"decimal formatting of a negative symbolic integer"})
	}
	digits := 0
	bound := uint64(10)
	for d := 1; d <= 6; d++ {
		if i.truth(i.symBinop(token.LSS, sv, lit(bound))) {
			digits = d
			break
		}
		bound *= 10
	}
	if digits == 0 {
		panic(unsupported{"decimal formatting of a symbolic integer >= 10^6"})
	}
	// work at 32 bits: value < 10^6
	x := i.extend(sv.t, w, 32, false)
	out := make([]value, digits)
	div := uint64(1)
	for d := digits - 1; d >= 0; d-- {
		q := c.App("bvudiv", sym.BV32, x, c.BVLit(div, 32))
		r := c.App("bvurem", sym.BV32, q, c.BVLit(10, 32))
		ch := c.App("bvadd", sym.BV8, i.extend(r, 32, 8, false), c.BVLit('0', 8))
		out[d] = i.mkSym(ch, types.Uint8)
		div *= 10
	}
	return symStr{out}.norm()
}

// parseSym: strconv.Parse{Float,Int,Uint}/Atoi of a symbolic string with
// concrete base and bit size.
//
// Exact whenever the string has at most three distinct symbolic bytes (any
// length): every instantiation of those bytes (over their recorded domains,
// or all 256 values) is pushed through the real strconv function natively and
// verdict and value become an ite-chain over the accepted instantiations.
// Otherwise verdict and value are uninterpreted functions of the byte vector,
// the base and the bit size, with the lemmas of exactDecimal.
func (i *interpreter) parseSym(fr *frame, fn string, s symStr, k types.BasicKind, base, bits int) value {
	if s.hasOpaque() {
		panic(unsupported{"strconv." + fn + " of a string containing a formatted symbolic number"})
	}
	c := i.ctx()
	okT, valT, exact := i.exactParse(fn, s, k, base, bits)
	if !exact {
		key := fmt.Sprintf("%s_%d_%d_%s", fn, base, bits, vecKey(s))
		okT = c.Var("pok_"+key, sym.Bool)
		valT = c.Var("pval_"+key, kindSort(k))
		if base == 0 || base == 10 {
			i.exactDecimal(fn, s, okT, valT, k, bits)
		}
	}
	if i.truth(i.boolSym(okT)) {
		return tuple{i.mkSym(valT, k), iface{}}
	}
	// the repository only looks at NumError.Err (ErrSyntax / ErrRange are not distinguished here)
	errSyntax := i.foreignGlobalValue("strconv", "ErrSyntax")
	t := lookupType("strconv", "NumError")
	return tuple{concreteOfKind(k, 0), iface{t: types.NewPointer(t), v: ptrTo(structure{fn, s, errSyntax})}}
}

// parseEntry: one accepted instantiation of the symbolic bytes and its value.
type parseEntry struct {
	vals [maxExactParseSyms]byte
	bits uint64
}

// maxExactParseSyms: strings with at most this many distinct symbolic bytes are parsed exactly
// (256^3 native calls per table at worst, once per pattern).
const maxExactParseSyms = 3

var (
	parseTabMu sync.Mutex
	parseTabs  = map[string][]parseEntry{}
)

func parseNative(fn, s string, base, bits int) (uint64, bool) {
	switch fn {
	case "ParseFloat":
		f, err := strconv.ParseFloat(s, bits)
		return math.Float64bits(f), err == nil
	case "ParseInt":
		n, err := strconv.ParseInt(s, base, bits)
		return uint64(n), err == nil
	case "ParseUint":
		n, err := strconv.ParseUint(s, base, bits)
		return n, err == nil
	case "Atoi":
		n, err := strconv.Atoi(s)
		return uint64(n), err == nil
	}
	return 0, false
}

// exactParse: exact verdict and value when at most three distinct symbolic
// bytes occur in s (exact=false otherwise).
func (i *interpreter) exactParse(fn string, s symStr, k types.BasicKind, base, bits int) (okT, valT *sym.Term, exact bool) {
	c := i.ctx()
	var syms []*sym.Term
	pos := make([]int, len(s.b)) // index into syms, -1 for concrete
	buf := make([]byte, len(s.b))
	for j, b := range s.b {
		switch b := b.(type) {
		case uint8:
			pos[j] = -1
			buf[j] = b
		case symVal:
			idx := -1
			for q, t := range syms {
				if t == b.t {
					idx = q
				}
			}
			if idx < 0 {
				if len(syms) == maxExactParseSyms {
					return nil, nil, false
				}
				syms = append(syms, b.t)
				idx = len(syms) - 1
			}
			pos[j] = idx
		default:
			return nil, nil, false
		}
	}
	doms := make([]string, len(syms))
	var keyb strings.Builder
	fmt.Fprintf(&keyb, "%s/%d/%d/", fn, base, bits)
	for j := range s.b {
		if pos[j] < 0 {
			fmt.Fprintf(&keyb, "c%02x", buf[j])
		} else {
			fmt.Fprintf(&keyb, "s%d", pos[j])
		}
	}
	for q, t := range syms {
		if d, ok := i.w.domains[t]; ok {
			doms[q] = d
		} else {
			all := make([]byte, 256)
			for v := range all {
				all[v] = byte(v)
			}
			doms[q] = string(all)
		}
		fmt.Fprintf(&keyb, "/%x", doms[q])
	}
	key := keyb.String()
	parseTabMu.Lock()
	tab, ok := parseTabs[key]
	if !ok {
		var vals [maxExactParseSyms]byte
		var rec func(q int)
		rec = func(q int) {
			if q == len(syms) {
				for j := range buf {
					if pos[j] >= 0 {
						buf[j] = vals[pos[j]]
					}
				}
				if bv, ok := parseNative(fn, string(buf), base, bits); ok {
					tab = append(tab, parseEntry{vals, bv})
				}
				return
			}
			for x := 0; x < len(doms[q]); x++ {
				vals[q] = doms[q][x]
				rec(q + 1)
			}
		}
		rec(0)
		parseTabs[key] = tab
	}
	parseTabMu.Unlock()
	// verdict and value as a decision tree over the symbolic bytes in order (a trie of the accepted
	// instantiations): far friendlier to the solver than one flat disjunction of conjunctions
	var zero *sym.Term
	if kindIsFloat(k) {
		zero = c.F64Lit(0)
	} else {
		zero = c.BVLit(0, kindWidth(k))
	}
	lit := func(bits uint64) *sym.Term {
		if kindIsFloat(k) {
			return c.F64Lit(math.Float64frombits(bits))
		}
		return c.BVLit(bits, kindWidth(k))
	}
	var build func(entries []parseEntry, q int) (*sym.Term, *sym.Term)
	build = func(entries []parseEntry, q int) (*sym.Term, *sym.Term) {
		if len(entries) == 0 {
			return c.False, zero
		}
		if q == len(syms) {
			return c.True, lit(entries[0].bits)
		}
		ok, val := c.False, zero
		// entries are generated in lexicographic order of vals: group by vals[q]
		for lo := 0; lo < len(entries); {
			hi := lo
			for hi < len(entries) && entries[hi].vals[q] == entries[lo].vals[q] {
				hi++
			}
			eq := c.Eq(syms[q], c.BVLit(uint64(entries[lo].vals[q]), 8))
			if eq != c.False {
				subOK, subVal := build(entries[lo:hi], q+1)
				ok = c.Or(ok, c.And(eq, subOK))
				val = c.Ite(eq, subVal, val)
			}
			lo = hi
		}
		return ok, val
	}
	okT, valT = build(tab, 0)
	return okT, valT, true
}

func vecKey(s symStr) string {
	var sb strings.Builder
	for _, b := range s.b {
		switch b := b.(type) {
		case uint8:
			fmt.Fprintf(&sb, "c%02x", b)
		case symVal:
			fmt.Fprintf(&sb, "t%d", b.t.ID)
		}
	}
	if sb.Len() == 0 {
		return "empty"
	}
	return sb.String()
}

// exactDecimal constrains (ok, val) for strings of at most 4 bytes that are
// all decimal digits (after an optional '-'): ok holds and val is the value.
// Strings containing a byte outside [0-9+-._eExXoObBaAcCdDfFiInNtTyYpP]
// never parse. Everything in between stays uninterpreted.
func (i *interpreter) exactDecimal(fn string, s symStr, okT, valT *sym.Term, k types.BasicKind, bits int) {
	c := i.ctx()
	n := len(s.b)
	if n == 0 {
		i.lemma(c.Not(okT))
		return
	}
	isDigit := func(b value) *sym.Term {
		t := i.term(b)
		return c.And(c.App("bvuge", sym.Bool, t, c.BVLit('0', 8)), c.App("bvule", sym.Bool, t, c.BVLit('9', 8)))
	}
	// bytes that can never appear in a number accepted by strconv
	allowed := "0123456789+-._eExXoObBaAcCdDfFiInNtTyYpP"
	var anyBad []*sym.Term
	for _, b := range s.b {
		t := i.term(b)
		var ors []*sym.Term
		for k := 0; k < len(allowed); k++ {
			ors = append(ors, c.Eq(t, c.BVLit(uint64(allowed[k]), 8)))
		}
		anyBad = append(anyBad, c.Not(c.Or(ors...)))
	}
	i.lemma(c.App("=>", sym.Bool, c.Or(anyBad...), c.Not(okT)))
	if n > 4 || !(kindIsInt(k) || kindIsFloat(k)) || (kindIsInt(k) && bits != 0 && bits < 16) {
		return
	}
	// all digits, no leading zero unless single digit
	build := func(from int, neg bool) {
		digs := s.b[from:]
		if len(digs) == 0 {
			return
		}
		conds := []*sym.Term{}
		for _, b := range digs {
			conds = append(conds, isDigit(b))
		}
		if len(digs) > 1 {
			conds = append(conds, c.Not(c.Eq(i.term(digs[0]), c.BVLit('0', 8))))
		}
		if from == 1 {
			conds = append(conds, c.Eq(i.term(s.b[0]), c.BVLit('-', 8)))
			if fn == "ParseUint" {
				i.lemma(c.App("=>", sym.Bool, c.And(conds...), c.Not(okT)))
				return
			}
		}
		// value at 16 bits (<= 9999)
		var acc *sym.Term = c.BVLit(0, 16)
		for _, b := range digs {
			d := c.App("bvsub", sym.BV16, i.extend(i.term(b), 8, 16, false), c.BVLit('0', 16))
			acc = c.App("bvadd", sym.BV16, c.App("bvmul", sym.BV16, acc, c.BVLit(10, 16)), d)
		}
		var val *sym.Term
		if kindIsInt(k) {
			val = i.extend(acc, 16, kindWidth(k), false)
			if neg {
				val = c.App("bvneg", kindSort(k), val)
			}
		} else {
			val = c.App("(_ to_fp_unsigned 11 53) RNE", sym.F64, acc)
			if neg {
				val = c.App("fp.neg", sym.F64, val)
			}
		}
		i.lemma(c.App("=>", sym.Bool, c.And(conds...), c.And(okT, c.Eq(valT, val))))
	}
	build(0, false)
	if n >= 2 {
		build(1, true)
	}
}

func (i *interpreter) parseBoolSym(fr *frame, s symStr) value {
	for _, lit := range []string{"1", "t", "T", "true", "TRUE", "True"} {
		if i.truth(i.strEq(s, lit)) {
			return tuple{true, iface{}}
		}
	}
	for _, lit := range []string{"0", "f", "F", "false", "FALSE", "False"} {
		if i.truth(i.strEq(s, lit)) {
			return tuple{false, iface{}}
		}
	}
	errSyntax := i.foreignGlobalValue("strconv", "ErrSyntax")
	t := lookupType("strconv", "NumError")
	return tuple{false, iface{t: types.NewPointer(t), v: ptrTo(structure{"ParseBool", s, errSyntax})}}
}

// ---------------------------------------------------------------------
// native bridges for pure functions (concrete arguments only)

func init() {
	bridge("strings.ToLower", strings.ToLower)
	bridge("strings.ToUpper", strings.ToUpper)
	bridge("strings.TrimSpace", strings.TrimSpace)
	bridge("strings.Title", strings.Title)
	bridge("strings.EqualFold", strings.EqualFold)
	bridge("strings.Index", strings.Index)
	bridge("strings.IndexByte", strings.IndexByte)
	bridge("strings.IndexAny", strings.IndexAny)
	bridge("strings.IndexRune", strings.IndexRune)
	bridge("strings.LastIndex", strings.LastIndex)
	bridge("strings.LastIndexByte", strings.LastIndexByte)
	bridge("strings.Contains", strings.Contains)
	bridge("strings.ContainsAny", strings.ContainsAny)
	bridge("strings.ContainsRune", strings.ContainsRune)
	bridge("strings.Count", strings.Count)
	bridge("strings.HasPrefix", strings.HasPrefix)
	bridge("strings.HasSuffix", strings.HasSuffix)
	bridge("strings.TrimPrefix", strings.TrimPrefix)
	bridge("strings.TrimSuffix", strings.TrimSuffix)
	bridge("strings.Trim", strings.Trim)
	bridge("strings.TrimLeft", strings.TrimLeft)
	bridge("strings.TrimRight", strings.TrimRight)
	bridge("strings.Split", strings.Split)
	bridge("strings.SplitN", strings.SplitN)
	bridge("strings.Fields", strings.Fields)
	bridge("strings.Join", strings.Join)
	bridge("strings.Replace", strings.Replace)
	bridge("strings.ReplaceAll", strings.ReplaceAll)
	bridge("strings.Repeat", strings.Repeat)
	bridge("strings.Compare", strings.Compare)
	bridge("strings.ToValidUTF8", strings.ToValidUTF8)
	bridge("path.Join", path.Join)
	bridge("path.Dir", path.Dir)
	bridge("path.Base", path.Base)
	bridge("path.Ext", path.Ext)
	bridge("path.Clean", path.Clean)
	bridge("path.IsAbs", path.IsAbs)
	bridge("path/filepath.IsAbs", filepath.IsAbs)
	bridge("path/filepath.Join", filepath.Join)
	bridge("path/filepath.Dir", filepath.Dir)
	bridge("path/filepath.Base", filepath.Base)
	bridge("path/filepath.Ext", filepath.Ext)
	bridge("path/filepath.ToSlash", filepath.ToSlash)
	bridge("path/filepath.FromSlash", filepath.FromSlash)
	bridge("path/filepath.Clean", filepath.Clean)
	bridge("path/filepath.Abs", filepath.Abs)
	bridge("net/http.CanonicalHeaderKey", http.CanonicalHeaderKey)
	bridge("net/textproto.CanonicalMIMEHeaderKey", textproto.CanonicalMIMEHeaderKey)
	bridge("net/http.StatusText", http.StatusText)
	bridge("net/url.QueryEscape", url.QueryEscape)
	bridge("net/url.PathEscape", url.PathEscape)
	bridge("net/url.QueryUnescape", url.QueryUnescape)
	bridge("net/url.PathUnescape", url.PathUnescape)
	bridge("unicode/utf8.RuneCountInString", utf8.RuneCountInString)
	bridge("unicode/utf8.ValidString", utf8.ValidString)
	bridge("unicode/utf8.RuneLen", utf8.RuneLen)
	bridge("unicode/utf16.IsSurrogate", utf16.IsSurrogate)
	bridge("sort.Strings", func(x []string) []string { sort.Strings(x); return x })
	bridge("internal/bytealg.IndexByteString", strings.IndexByte)
	bridge("internal/bytealg.IndexString", strings.Index)
	bridge("internal/bytealg.CountString", func(s string, c byte) int { return strings.Count(s, string([]byte{c})) })
	bridge("internal/bytealg.LastIndexByteString", strings.LastIndexByte)
	bridge("internal/bytealg.IndexByte", bytes.IndexByte)
	bridge("internal/bytealg.Index", bytes.Index)
	bridge("internal/bytealg.Equal", bytes.Equal)
	bridge("internal/bytealg.Compare", bytes.Compare)
	bridge("internal/bytealg.LastIndexByte", bytes.LastIndexByte)
	bridge("internal/bytealg.Count", func(b []byte, c byte) int { return bytes.Count(b, []byte{c}) })
	bridge("internal/stringslite.Index", strings.Index)
	bridge("internal/stringslite.IndexByte", strings.IndexByte)
	bridge("internal/stringslite.HasPrefix", strings.HasPrefix)
	bridge("internal/stringslite.HasSuffix", strings.HasSuffix)
	bridge("internal/stringslite.Cut", strings.Cut)
	bridge("internal/stringslite.CutPrefix", strings.CutPrefix)
	bridge("internal/stringslite.CutSuffix", strings.CutSuffix)
	bridge("internal/stringslite.TrimPrefix", strings.TrimPrefix)
	bridge("internal/stringslite.TrimSuffix", strings.TrimSuffix)
	bridge("strings.Cut", strings.Cut)
	bridge("strings.CutPrefix", strings.CutPrefix)
	bridge("strings.CutSuffix", strings.CutSuffix)

	// sort.Strings sorts in place: dedicated intrinsic (bridge above would copy)
	delete(natives, "sort.Strings")
	externals["sort.Strings"] = func(fr *frame, a []value) value {
		x := a[0].([]value)
		i := fr.i
		// insertion sort with (possibly symbolic) comparisons
		for p := 1; p < len(x); p++ {
			for q := p; q > 0 && i.truth(i.strLess(x[q], x[q-1], false)); q-- {
				x[q], x[q-1] = x[q-1], x[q]
			}
		}
		return nil
	}
}

// ---------------------------------------------------------------------
// bytes.Buffer writes that may carry opaque pieces (formatted symbolic
// numbers): elements are appended to buf as they are. Reads stay interpreted.

func init() {
	bufOf := func(recv value) *value {
		st := (*(recv.(*value))).(structure)
		return &st[0]
	}
	externals["(*bytes.Buffer).WriteString"] = func(fr *frame, a []value) value {
		p := bufOf(a[0])
		cur, _ := (*p).([]value)
		s := toSymStr(a[1])
		*p = append(cur, s.b...)
		return tuple{len(s.b), iface{}}
	}
	externals["(*bytes.Buffer).Write"] = func(fr *frame, a []value) value {
		p := bufOf(a[0])
		cur, _ := (*p).([]value)
		src := a[1].([]value)
		*p = append(cur, src...)
		return tuple{len(src), iface{}}
	}
	externals["(*bytes.Buffer).WriteByte"] = func(fr *frame, a []value) value {
		p := bufOf(a[0])
		cur, _ := (*p).([]value)
		*p = append(cur, a[1])
		return iface{}
	}
	externals["(*bytes.Buffer).WriteRune"] = func(fr *frame, a []value) value {
		r, ok := a[1].(int32)
		if !ok {
			panic(unsupported{"bytes.Buffer.WriteRune of a symbolic rune"})
		}
		p := bufOf(a[0])
		cur, _ := (*p).([]value)
		s := string(r)
		*p = append(cur, toSymStr(s).b...)
		return tuple{len(s), iface{}}
	}
	externals["math.Signbit"] = func(fr *frame, a []value) value {
		if s, ok := a[0].(symVal); ok {
			return fr.i.boolSym(fr.i.ctx().App("fp.isNegative", sym.Bool, s.t))
		}
		return math.Signbit(a[0].(float64))
	}
}

func init() {
	// table-driven stdlib functions are bridged natively (their package tables are not initialised in the engine)
	bridge("unicode/utf8.DecodeRuneInString", utf8.DecodeRuneInString)
	bridge("unicode/utf8.DecodeLastRuneInString", utf8.DecodeLastRuneInString)
	bridge("unicode/utf8.DecodeRune", utf8.DecodeRune)
	bridge("unicode/utf8.DecodeLastRune", utf8.DecodeLastRune)
	bridge("unicode/utf8.RuneCount", utf8.RuneCount)
	bridge("unicode/utf8.Valid", utf8.Valid)
	bridge("unicode/utf8.ValidRune", utf8.ValidRune)
	bridge("unicode/utf8.FullRune", utf8.FullRune)
	bridge("unicode/utf8.AppendRune", utf8.AppendRune)
	bridge("unicode.IsLower", unicode.IsLower)
	bridge("unicode.IsUpper", unicode.IsUpper)
	bridge("unicode.IsLetter", unicode.IsLetter)
	bridge("unicode.IsDigit", unicode.IsDigit)
	bridge("unicode.IsSpace", unicode.IsSpace)
	bridge("unicode.IsPunct", unicode.IsPunct)
	bridge("unicode.IsControl", unicode.IsControl)
	bridge("unicode.IsPrint", unicode.IsPrint)
	bridge("unicode.IsGraphic", unicode.IsGraphic)
	bridge("unicode.ToLower", unicode.ToLower)
	bridge("unicode.ToUpper", unicode.ToUpper)
	bridge("unicode.ToTitle", unicode.ToTitle)
	bridge("unicode.SimpleFold", unicode.SimpleFold)
	bridge("strings.Map", nil)
	delete(natives, "strings.Map")
}

func init() {
	// context.WithValue checks key comparability through internal/reflectlite; build the context directly
	externals["context.WithValue"] = func(fr *frame, a []value) value {
		parent := a[0].(iface)
		if parent.t == nil {
			rtPanic(fr.i, "cannot create context from nil parent")
		}
		key := a[1].(iface)
		if key.t == nil {
			rtPanic(fr.i, "nil key")
		}
		if !types.Comparable(key.t) {
			rtPanic(fr.i, "key is not comparable")
		}
		t := lookupType("context", "valueCtx")
		if t == nil {
			panic(unsupported{"context.valueCtx not loaded"})
		}
		return iface{t: types.NewPointer(t), v: ptrTo(structure{parent, key, a[2]})}
	}
}

func init() {
	// maps.clone is implemented in the runtime (linkname): a shallow copy.
	externals["maps.clone"] = func(fr *frame, a []value) value {
		in, ok := a[0].(iface)
		if !ok {
			return a[0]
		}
		m, ok := in.v.(*omap)
		if !ok || m == nil {
			return in
		}
		out := &omap{keyType: m.keyType, idx: make(map[value]int, len(m.keys)), nsym: m.nsym}
		for k := range m.keys {
			if indexable(m.keys[k]) {
				out.idx[m.keys[k]] = len(out.keys)
			}
			out.keys = append(out.keys, m.keys[k])
			out.vals = append(out.vals, copyVal(m.vals[k]))
		}
		return iface{t: in.t, v: out}
	}
}

// ---------------------------------------------------------------------
// net/netip: addresses are native handles (concrete text only)

type nativeAddr struct{ a netip.Addr }

func (*nativeAddr) isNativeHandle() {}

func init() {
	externals["net/netip.ParseAddr"] = func(fr *frame, a []value) value {
		s, ok := a[0].(string)
		if !ok {
			panic(unsupported{"netip.ParseAddr of a symbolic string"})
		}
		addr, err := netip.ParseAddr(s)
		if err != nil {
			return tuple{&nativeAddr{}, fr.i.nativeError(fr, err)}
		}
		return tuple{&nativeAddr{addr}, iface{}}
	}
	externals["(net/netip.Addr).Is4"] = func(fr *frame, a []value) value { return a[0].(*nativeAddr).a.Is4() }
	externals["(net/netip.Addr).Is6"] = func(fr *frame, a []value) value { return a[0].(*nativeAddr).a.Is6() }
	externals["(net/netip.Addr).Is4In6"] = func(fr *frame, a []value) value { return a[0].(*nativeAddr).a.Is4In6() }
	externals["(net/netip.Addr).IsValid"] = func(fr *frame, a []value) value { return a[0].(*nativeAddr).a.IsValid() }
	externals["(net/netip.Addr).String"] = func(fr *frame, a []value) value { return a[0].(*nativeAddr).a.String() }
}

func init() {
	// linkname: mime/multipart.readMIMEHeader is net/textproto.readMIMEHeader
	externals["mime/multipart.readMIMEHeader"] = func(fr *frame, a []value) value {
		p := fr.i.prog.ImportedPackage("net/textproto")
		if p == nil || p.Func("readMIMEHeader") == nil {
			panic(unsupported{"net/textproto.readMIMEHeader is not loaded"})
		}
		return call(fr.i, fr, token.NoPos, p.Func("readMIMEHeader"), a)
	}
}

func init() {
	// sync.Pool: sequential model without reuse — Get always asks New, Put forgets.
	externals["(*sync.Pool).Get"] = func(fr *frame, a []value) value {
		st := (*(a[0].(*value))).(structure)
		idx := -1
		if t := lookupType("sync", "Pool"); t != nil {
			if s, ok := t.Underlying().(*types.Struct); ok {
				for k := 0; k < s.NumFields(); k++ {
					if s.Field(k).Name() == "New" {
						idx = k
					}
				}
			}
		}
		if idx < 0 || idx >= len(st) || st[idx] == nil {
			return iface{}
		}
		if cl, ok := st[idx].(*closure); ok && cl == nil {
			return iface{}
		}
		return call(fr.i, fr, token.NoPos, st[idx], nil)
	}
	externals["(*sync.Pool).Put"] = func(fr *frame, a []value) value { return nil }
}

func init() {
	// io.Discard.ReadFrom uses a package-level sync.Pool with a New closure; read and drop instead.
	externals["(io.discard).ReadFrom"] = func(fr *frame, a []value) value {
		r, ok := a[1].(iface)
		if !ok || r.t == nil {
			rtPanic(fr.i, "runtime error: invalid memory address or nil pointer dereference")
		}
		var n int64
		for rounds := 0; rounds < 1<<16; rounds++ {
			buf := make([]value, 512)
			for k := range buf {
				buf[k] = uint8(0)
			}
			res, ok := fr.i.callMethod(fr, r.t, r.v, "Read", buf)
			if !ok {
				panic(unsupported{"io.Discard.ReadFrom: reader without Read"})
			}
			t := res.(tuple)
			n += int64(fr.i.concretize(t[0]))
			if e := t[1].(iface); e.t != nil {
				if fr.i.isEOF(e) {
					return tuple{n, iface{}}
				}
				return tuple{n, e}
			}
		}
		panic(unsupported{"io.Discard.ReadFrom: reader does not end"})
	}
}

func (i *interpreter) isEOF(e iface) bool {
	eof, ok := i.foreignGlobalValue("io", "EOF").(iface)
	return ok && eof.t != nil && e.t == eof.t && e.v == eof.v
}

// strings.Replacer: native handle (concrete operands only)
type nativeReplacer struct{ r *strings.Replacer }

func (*nativeReplacer) isNativeHandle() {}

func init() {
	externals["strings.NewReplacer"] = func(fr *frame, a []value) value {
		var args []string
		for _, v := range a[0].([]value) {
			s, ok := v.(string)
			if !ok {
				panic(unsupported{"strings.NewReplacer with symbolic arguments"})
			}
			args = append(args, s)
		}
		return ptrTo(&nativeReplacer{strings.NewReplacer(args...)})
	}
	externals["(*strings.Replacer).Replace"] = func(fr *frame, a []value) value {
		r := (*(a[0].(*value))).(*nativeReplacer).r
		s, ok := a[1].(string)
		if !ok {
			panic(unsupported{"strings.Replacer.Replace of a symbolic string"})
		}
		return r.Replace(s)
	}
	foreignGlobalInit["net/http.cookieNameSanitizer"] = func(i *interpreter) value {
		return ptrTo(&nativeReplacer{strings.NewReplacer("\n", "-", "\r", "-")})
	}
}

// Environment stub: the file system has no files. os.ReadFile / os.Open fail for every path
// (the harnesses serve documents through ReadFromURIFunc; this only lets code that falls through
// to the default file reader end with an error instead of being unsupported). Native replays use
// paths that do not exist, so both sides agree.
func init() {
	externals["os.ReadFile"] = func(fr *frame, a []value) value {
		name, ok := a[0].(string)
		if !ok {
			panic(unsupported{"os.ReadFile of a symbolic path"})
		}
		return tuple{[]value(nil), fr.i.newError(fr, "open "+name+": no such file or directory")}
	}
}
