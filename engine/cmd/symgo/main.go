// symgo: bounded symbolic execution of kin-openapi's real code (go/ssa) with an SMT back end.
//
//	symgo check <ID> quick|thorough     run the property's harnesses, replay, write evidence
//	symgo run <pkgrel> <func>           run one harness (development)
//	symgo list                          list registered harnesses
package main

import (
	"bufio"
	"crypto/sha1"
	"encoding/json"
	"flag"
	"fmt"
	"go/types"
	"os"
	"os/exec"
	"path/filepath"
	"regexp"
	"runtime"
	"sort"
	"strconv"
	"strings"
	"time"

	"golang.org/x/tools/go/packages"
	"golang.org/x/tools/go/ssa"
	"golang.org/x/tools/go/ssa/ssautil"

	"verif/engine/interp"
	"verif/engine/sym"
)

const modPrefix = "github.com/getkin/kin-openapi"

// repoDir is the tree under check (/repo; VERIF_REPO overrides it for
// development runs against a scratch worktree, in which case evidence goes
// to .work/ and not to evidence/). verifDir is the directory holding
// harness/, known_findings.json, evidence/ (the parent of bin/).
var (
	repoDir     = "/repo"
	verifDir    = "/verif"
	scratchRepo = false
)

func init() {
	if v := os.Getenv("VERIF_REPO"); v != "" && v != "/repo" {
		repoDir = v
		scratchRepo = true
	}
	if v := os.Getenv("VERIF_DIR"); v != "" {
		verifDir = v
	} else if exe, err := os.Executable(); err == nil {
		d := filepath.Dir(filepath.Dir(exe))
		if _, err := os.Stat(filepath.Join(d, "harness", "rt")); err == nil {
			verifDir = d
		}
	}
}

// Harness is one registered harness function.
type Harness struct {
	ID      string
	Pkg     string // path relative to the repository root, e.g. "openapi3"
	Func    string
	Tiers   map[string]bool
	Witness []string
	Bounds  string
	File    string
	Opts    map[string]string
}

var directiveRe = regexp.MustCompile(`^//verif:harness\s+(.*)$`)
var funcRe = regexp.MustCompile(`^func\s+([A-Za-z0-9_]+)\s*\(\s*\)`)

func scanHarnesses() ([]*Harness, map[string][]string, error) {
	var out []*Harness
	files := map[string][]string{} // pkg rel -> harness source files
	root := filepath.Join(verifDir, "harness")
	err := filepath.Walk(root, func(p string, info os.FileInfo, err error) error {
		if err != nil || info.IsDir() || !strings.HasSuffix(p, ".go") {
			return err
		}
		rel, _ := filepath.Rel(root, filepath.Dir(p))
		if rel == "rt" {
			return nil
		}
		files[rel] = append(files[rel], p)
		f, err := os.Open(p)
		if err != nil {
			return err
		}
		defer f.Close()
		sc := bufio.NewScanner(f)
		sc.Buffer(make([]byte, 1<<20), 1<<20)
		var pending map[string]string
		for sc.Scan() {
			line := sc.Text()
			if m := directiveRe.FindStringSubmatch(line); m != nil {
				pending = parseKV(m[1])
				continue
			}
			if m := funcRe.FindStringSubmatch(line); m != nil && pending != nil {
				h := &Harness{ID: pending["id"], Pkg: rel, Func: m[1], Tiers: map[string]bool{}, Bounds: pending["bounds"], File: p, Opts: pending}
				for _, t := range strings.Split(pending["tier"], ",") {
					if t != "" {
						h.Tiers[t] = true
					}
				}
				if w := pending["witness"]; w != "" {
					h.Witness = strings.Split(w, ",")
				}
				out = append(out, h)
				pending = nil
			}
		}
		return sc.Err()
	})
	return out, files, err
}

func parseKV(s string) map[string]string {
	m := map[string]string{}
	for len(s) > 0 {
		s = strings.TrimLeft(s, " \t")
		eq := strings.IndexByte(s, '=')
		if eq < 0 {
			break
		}
		k := s[:eq]
		s = s[eq+1:]
		var v string
		if strings.HasPrefix(s, "\"") {
			end := strings.IndexByte(s[1:], '"')
			if end < 0 {
				v, s = s[1:], ""
			} else {
				v, s = s[1:1+end], s[end+2:]
			}
		} else {
			sp := strings.IndexAny(s, " \t")
			if sp < 0 {
				v, s = s, ""
			} else {
				v, s = s[:sp], s[sp:]
			}
		}
		m[k] = v
	}
	return m
}

func pkgNameOf(file string) string {
	b, _ := os.ReadFile(file)
	for _, line := range strings.Split(string(b), "\n") {
		if strings.HasPrefix(line, "package ") {
			return strings.TrimSpace(strings.TrimPrefix(line, "package "))
		}
	}
	return ""
}

// buildOverlay returns virtual path -> content for the given package dirs.
func buildOverlay(pkgs []string, files map[string][]string, hs []*Harness, withTest bool) map[string][]byte {
	ov := map[string][]byte{}
	rt, err := os.ReadFile(filepath.Join(verifDir, "harness/rt/zz_verif_rt.go.tmpl"))
	if err != nil {
		fatal(err)
	}
	rtTest, _ := os.ReadFile(filepath.Join(verifDir, "harness/rt/zz_verif_replay_test.go.tmpl"))
	for _, rel := range pkgs {
		fs := files[rel]
		if len(fs) == 0 {
			continue
		}
		name := ""
		for _, f := range fs {
			if strings.HasSuffix(f, "_test.go") {
				continue
			}
			b, err := os.ReadFile(f)
			if err != nil {
				fatal(err)
			}
			ov[filepath.Join(repoDir, rel, filepath.Base(f))] = b
			if name == "" {
				name = pkgNameOf(f)
			}
		}
		ov[filepath.Join(repoDir, rel, "zz_verif_rt.go")] = []byte(strings.Replace(string(rt), "PKGNAME", name, 1))
		var tb strings.Builder
		fmt.Fprintf(&tb, "package %s\n\nvar verifHarnessTable = map[string]func(){\n", name)
		for _, h := range hs {
			if h.Pkg == rel {
				fmt.Fprintf(&tb, "\t%q: %s,\n", h.Func, h.Func)
			}
		}
		tb.WriteString("}\n")
		ov[filepath.Join(repoDir, rel, "zz_verif_table.go")] = []byte(tb.String())
		if withTest {
			ov[filepath.Join(repoDir, rel, "zz_verif_replay_test.go")] = []byte(strings.Replace(string(rtTest), "PKGNAME", name, 1))
		}
	}
	return ov
}

type loaded struct {
	prog *ssa.Program
	pkgs map[string]*ssa.Package // rel -> package
}

func load(rels []string, ov map[string][]byte) *loaded {
	t0 := time.Now()
	// many threads faulting fresh memory at once is very slow in this VM: load with few Ps
	prev := runtime.GOMAXPROCS(4)
	defer runtime.GOMAXPROCS(prev)
	cfg := &packages.Config{Mode: packages.LoadAllSyntax, Dir: repoDir, Overlay: ov,
		Env: append(os.Environ(), "GOFLAGS=-mod=mod", "GOPROXY=off", "GOSUMDB=off", "GOTOOLCHAIN=local")}
	var pats []string
	for _, r := range rels {
		pats = append(pats, "./"+r)
	}
	pkgs, err := packages.Load(cfg, pats...)
	if err != nil {
		fatal(err)
	}
	bad := false
	packages.Visit(pkgs, nil, func(p *packages.Package) {
		for _, e := range p.Errors {
			if strings.HasPrefix(p.PkgPath, modPrefix) {
				fmt.Fprintf(os.Stderr, "load error in %s: %v\n", p.PkgPath, e)
				bad = true
			}
		}
	})
	if bad {
		fmt.Println("INCONCLUSIVE repository or harness does not type-check")
		os.Exit(2)
	}
	if os.Getenv("SYMGO_VERBOSE") != "" {
		fmt.Fprintf(os.Stderr, "packages.Load %v\n", time.Since(t0))
	}
	prog, spkgs := ssautil.AllPackages(pkgs, ssa.InstantiateGenerics)
	prog.Build()
	l := &loaded{prog: prog, pkgs: map[string]*ssa.Package{}}
	for k, p := range spkgs {
		if p != nil {
			l.pkgs[strings.TrimPrefix(strings.TrimPrefix(pkgs[k].PkgPath, modPrefix), "/")] = p
		}
	}
	interp.Setup(prog)
	if os.Getenv("SYMGO_VERBOSE") != "" {
		fmt.Fprintf(os.Stderr, "loaded+built SSA in %v\n", time.Since(t0))
	}
	return l
}

func fatal(err error) {
	fmt.Fprintln(os.Stderr, "symgo:", err)
	os.Exit(2)
}

// ---------------------------------------------------------------------
// known findings

type KnownFinding struct {
	Property string `json:"property"`
	ID       string `json:"id"`
	Harness  string `json:"harness,omitempty"`
	What     string `json:"what"`
	Status   string `json:"status"` // "open" or "fixed"
	Commit   string `json:"commit,omitempty"`
}

func loadKnown() map[string]*KnownFinding {
	out := map[string]*KnownFinding{}
	b, err := os.ReadFile(filepath.Join(verifDir, "known_findings.json"))
	if err != nil {
		return out
	}
	var doc struct {
		Findings []*KnownFinding `json:"findings"`
	}
	if err := json.Unmarshal(b, &doc); err != nil {
		fatal(fmt.Errorf("known_findings.json: %v", err))
	}
	for _, f := range doc.Findings {
		if f.Status == "open" {
			out[f.ID] = f
		}
	}
	return out
}

// ---------------------------------------------------------------------
// native replay

type replayOutcome struct {
	File    string
	Outcome string
}

func writeOverlayFiles(ov map[string][]byte, dir string) string {
	os.MkdirAll(dir, 0o755)
	rep := map[string]string{}
	n := 0
	for virt, content := range ov {
		real := filepath.Join(dir, fmt.Sprintf("%d_%s", n, filepath.Base(virt)))
		n++
		if err := os.WriteFile(real, content, 0o644); err != nil {
			fatal(err)
		}
		rep[virt] = real
	}
	b, _ := json.Marshal(map[string]interface{}{"Replace": rep})
	p := filepath.Join(dir, "overlay.json")
	os.WriteFile(p, b, 0o644)
	return p
}

// nativeReplay runs the assignment files of one package natively.
func nativeReplay(rel string, ovJSON string, files []string, observe bool, timeout time.Duration) (map[string]string, string) {
	out := map[string]string{}
	if len(files) == 0 {
		return out, ""
	}
	args := []string{"test", "-v", "-vet=off", "-count=1", "-overlay", ovJSON, "-run", "^TestVerifReplay$", "-timeout", fmt.Sprintf("%ds", int(timeout.Seconds())), "./" + rel}
	cmd := exec.Command("go", args...)
	cmd.Dir = repoDir
	cmd.Env = append(os.Environ(), "GOFLAGS=-mod=mod", "GOPROXY=off", "GOSUMDB=off", "GOTOOLCHAIN=local",
		"VERIF_ASSIGN_FILES="+strings.Join(files, ":"))
	if observe {
		cmd.Env = append(cmd.Env, "VERIF_OBSERVE=1")
	}
	b, _ := cmd.CombinedOutput()
	txt := string(b)
	for _, line := range strings.Split(txt, "\n") {
		if strings.HasPrefix(line, "VERIF-REPLAY file=") {
			rest := strings.TrimPrefix(line, "VERIF-REPLAY file=")
			sp := strings.Index(rest, " outcome=")
			if sp > 0 {
				out[rest[:sp]] = rest[sp+len(" outcome="):]
			}
		}
	}
	// a file without an outcome line: the test binary died (fatal error, timeout, os.Exit)
	for _, f := range files {
		if _, ok := out[f]; !ok {
			switch {
			case strings.Contains(txt, "panic: test timed out"):
				out[f] = "timeout"
			case strings.Contains(txt, "fatal error: stack overflow") || strings.Contains(txt, "goroutine stack exceeds"):
				out[f] = "panic: stack overflow"
			default:
				out[f] = "no-outcome"
			}
			break // later files were not run
		}
	}
	return out, txt
}

// ---------------------------------------------------------------------
// check

type harnessReport struct {
	H       *Harness
	Res     *interp.Result
	Replays []map[string]string
}

func main() {
	if v := os.Getenv("SYMGO_SLOWQ"); v != "" {
		ms, _ := strconv.Atoi(v)
		sym.SlowQuery = time.Duration(ms) * time.Millisecond
	}
	if len(os.Args) < 2 {
		fmt.Fprintln(os.Stderr, "usage: symgo check <ID> quick|thorough | run <pkg> <func> | list")
		os.Exit(2)
	}
	switch os.Args[1] {
	case "list":
		hs, _, err := scanHarnesses()
		if err != nil {
			fatal(err)
		}
		for _, h := range hs {
			tiers := []string{}
			for t := range h.Tiers {
				tiers = append(tiers, t)
			}
			sort.Strings(tiers)
			fmt.Printf("%s %s %s tiers=%s witness=%v bounds=%q\n", h.ID, h.Pkg, h.Func, strings.Join(tiers, ","), h.Witness, h.Bounds)
		}
	case "run":
		fs := flag.NewFlagSet("run", flag.ExitOnError)
		workers := fs.Int("workers", 0, "worker count")
		trace := fs.Bool("trace-solver", false, "write solver transcripts to /tmp")
		assign := fs.String("assign", "", "concrete mode: assignment file")
		maxpaths := fs.Int("maxpaths", 0, "path cap")
		fs.Parse(os.Args[2:])
		if fs.NArg() < 2 {
			fatal(fmt.Errorf("run <pkg> <func>"))
		}
		doRun(fs.Arg(0), fs.Arg(1), *workers, *trace, *assign, *maxpaths)
	case "deps":
		// deps: which unexported identifiers of the repository the harnesses name (a rename of one
		// of these makes a harness stop compiling: the check then answers INCONCLUSIVE, not VIOLATION)
		doDeps()
	case "crosscheck":
		// crosscheck <ID> [maxpaths]: explore every quick harness of the property (capped) with
		// z3 4.8.12, z3 5.1.0 and cvc5 and compare what they decide
		if len(os.Args) < 3 {
			fatal(fmt.Errorf("crosscheck <ID> [maxpaths]"))
		}
		mp := 400
		if len(os.Args) > 3 {
			mp, _ = strconv.Atoi(os.Args[3])
		}
		os.Exit(doCrosscheck(os.Args[2], mp))
	case "replay":
		if len(os.Args) < 4 {
			fatal(fmt.Errorf("replay <ID> <assignment.json>"))
		}
		os.Exit(doReplay(os.Args[2], os.Args[3]))
	case "check":
		if len(os.Args) < 4 {
			fatal(fmt.Errorf("check <ID> quick|thorough"))
		}
		os.Exit(doCheck(os.Args[2], os.Args[3]))
	default:
		fatal(fmt.Errorf("unknown command %s", os.Args[1]))
	}
}

func doRun(rel, fn string, workers int, trace bool, assign string, maxpaths int) {
	hs, files, err := scanHarnesses()
	if err != nil {
		fatal(err)
	}
	ov := buildOverlay([]string{rel}, files, hs, false)
	l := load([]string{rel}, ov)
	pkg := l.pkgs[rel]
	if pkg == nil {
		fatal(fmt.Errorf("package %s not loaded", rel))
	}
	f := pkg.Func(fn)
	if f == nil {
		fatal(fmt.Errorf("no function %s in %s", fn, rel))
	}
	opt := interp.Options{Workers: workers, TraceSolver: trace, MaxPaths: maxpaths}
	if v := os.Getenv("SYMGO_MAXVIOL"); v != "" {
		opt.MaxViol, _ = strconv.Atoi(v)
	}
	if assign != "" {
		b, err := os.ReadFile(assign)
		if err != nil {
			fatal(err)
		}
		a := &interp.Assignment{}
		if err := json.Unmarshal(b, a); err != nil {
			fatal(err)
		}
		opt.Concrete = a
	}
	res := interp.Explore(pkg, f, opt)
	printResult(res)
	for k, v := range res.Violations {
		b, _ := json.MarshalIndent(v.Assign, "", " ")
		p := fmt.Sprintf("/tmp/symgo-viol-%d.json", k)
		os.WriteFile(p, b, 0o644)
	}
}

// doCrosscheck explores the quick harnesses of a property with three solvers, single worker
// and a path cap (so that the explored prefix of the path tree is the same), and compares
// paths, feasibility verdicts and violations.
func doCrosscheck(id string, maxpaths int) int {
	hs, files, err := scanHarnesses()
	if err != nil {
		fatal(err)
	}
	var sel []*Harness
	relSet := map[string]bool{}
	for _, h := range hs {
		if h.ID == id && h.Tiers["quick"] {
			sel = append(sel, h)
			relSet[h.Pkg] = true
		}
	}
	var rels []string
	for r := range relSet {
		rels = append(rels, r)
	}
	sort.Strings(rels)
	l := load(rels, buildOverlay(rels, files, hs, false))
	bad := 0
	for _, h := range sel {
		f := l.pkgs[h.Pkg].Func(h.Func)
		type sum struct {
			paths, completed, infeasible, sat, unsat, unknown, errors, viol int
			secs                                                            float64
		}
		var got []sum
		var verdicts []map[uint64]sym.Result
		kinds := []string{"z3", "z3-new", "cvc5"}
		for _, k := range kinds {
			sym.QueryRecord = map[uint64]sym.Result{}
			res := interp.Explore(l.pkgs[h.Pkg], f, interp.Options{Workers: 1, MaxPaths: maxpaths, Solver: k})
			verdicts = append(verdicts, sym.QueryRecord)
			sym.QueryRecord = nil
			got = append(got, sum{res.Paths, res.Completed, res.Infeasible, res.Solver.Sat, res.Solver.Unsat, res.Solver.Unknown, res.Solver.Errors, len(res.Violations), res.Solver.Time.Seconds()})
		}
		same := true
		note := ""
		for k := 1; k < len(got); k++ {
			a, b := got[0], got[k]
			// the same query must get the same verdict from every solver; which queries are asked may
			// differ where the exploration follows a model (concretised choices), so totals are compared
			// only through the queries both solvers saw
			common, differ := 0, 0
			for q, va := range verdicts[0] {
				if vb, ok := verdicts[k][q]; ok {
					common++
					if va != vb {
						differ++
					}
				}
			}
			if differ > 0 || a.viol != b.viol || b.unknown != 0 || b.errors != 0 || a.unknown != 0 || a.errors != 0 {
				same = false
			}
			if a.paths != b.paths || a.completed != b.completed || a.infeasible != b.infeasible || a.sat != b.sat || a.unsat != b.unsat {
				// different order of exploration under the cap: acceptable only if most queries were still shared
				if common*2 < len(verdicts[0]) {
					same = false
				}
				note += fmt.Sprintf(" [%s: %d/%d queries in common, %d verdicts differ]", kinds[k], common, len(verdicts[0]), differ)
			}
		}
		status := "AGREE"
		if !same {
			status = "DISAGREE"
			bad++
		}
		fmt.Printf("%s %s", status, h.Func)
		for k, g := range got {
			fmt.Printf(" | %s paths=%d sat=%d unsat=%d unknown=%d errors=%d viol=%d %.1fs", kinds[k], g.paths, g.sat, g.unsat, g.unknown, g.errors, g.viol, g.secs)
		}
		fmt.Println(note)
	}
	if bad > 0 {
		return 1
	}
	return 0
}

func doDeps() {
	hs, files, err := scanHarnesses()
	if err != nil {
		fatal(err)
	}
	relSet := map[string]bool{}
	for _, h := range hs {
		relSet[h.Pkg] = true
	}
	var rels []string
	for r := range relSet {
		rels = append(rels, r)
	}
	sort.Strings(rels)
	ov := buildOverlay(rels, files, hs, false)
	cfg := &packages.Config{Mode: packages.LoadAllSyntax, Dir: repoDir, Overlay: ov,
		Env: append(os.Environ(), "GOFLAGS=-mod=mod", "GOPROXY=off", "GOSUMDB=off", "GOTOOLCHAIN=local")}
	var pats []string
	for _, r := range rels {
		pats = append(pats, "./"+r)
	}
	pkgs, err := packages.Load(cfg, pats...)
	if err != nil {
		fatal(err)
	}
	for _, p := range pkgs {
		uses := map[string]map[string]bool{}
		for id, obj := range p.TypesInfo.Uses {
			if obj == nil || obj.Pkg() == nil || obj.Pkg() != p.Types || obj.Exported() {
				continue
			}
			usePos := p.Fset.Position(id.Pos())
			defPos := p.Fset.Position(obj.Pos())
			if !strings.HasPrefix(filepath.Base(usePos.Filename), "zz_verif_") || strings.HasPrefix(filepath.Base(defPos.Filename), "zz_verif_") {
				continue
			}
			// only package-level objects, fields and methods (locals cannot be named from another file anyway)
			name := obj.Name()
			if v, ok := obj.(*types.Var); ok && v.IsField() {
				name = "field " + name
			} else if f, ok := obj.(*types.Func); ok && f.Type().(*types.Signature).Recv() != nil {
				name = "method " + name
			} else if obj.Parent() != p.Types.Scope() {
				continue
			}
			if uses[name] == nil {
				uses[name] = map[string]bool{}
			}
			uses[name][filepath.Base(usePos.Filename)] = true
		}
		var names []string
		for n := range uses {
			names = append(names, n)
		}
		sort.Strings(names)
		fmt.Printf("%s: %d unexported identifiers named by harnesses\n", p.PkgPath, len(names))
		for _, n := range names {
			var fs []string
			for f := range uses[n] {
				fs = append(fs, f)
			}
			sort.Strings(fs)
			fmt.Printf("  %-40s %s\n", n, strings.Join(fs, " "))
		}
	}
}

// doReplay re-runs one recorded counterexample natively against /repo's
// current working tree (go test with the harness overlay) and prints the
// outcome. Exit 1 if the violation reproduces, 0 if the run is clean.
func doReplay(id, file string) int {
	b, err := os.ReadFile(file)
	if err != nil {
		fatal(err)
	}
	a := &interp.Assignment{}
	if err := json.Unmarshal(b, a); err != nil {
		fatal(err)
	}
	hs, files, err := scanHarnesses()
	if err != nil {
		fatal(err)
	}
	var h *Harness
	for _, x := range hs {
		if x.Func == a.Harness {
			h = x
		}
	}
	if h == nil {
		fatal(fmt.Errorf("harness %q of %s is not registered", a.Harness, file))
	}
	abs, _ := filepath.Abs(file)
	workDir, err := os.MkdirTemp("", "symgo-replay-")
	if err != nil {
		fatal(err)
	}
	defer os.RemoveAll(workDir)
	ovT := buildOverlay([]string{h.Pkg}, files, hs, true)
	ovJSON := writeOverlayFiles(ovT, workDir)
	got, txt := nativeReplay(h.Pkg, ovJSON, []string{abs}, true, 60*time.Second)
	o := got[abs]
	fmt.Printf("replay property=%s harness=%s package=%s label=%q\n  values=%v\n  chooses=%v\n  outcome=%s\n", id, h.Func, h.Pkg, a.Label, a.Values, a.Chooses, o)
	if os.Getenv("SYMGO_VERBOSE") != "" || o == "" || o == "no-outcome" {
		fmt.Println(txt)
	}
	if o == "ok" || o == "assume-failed" {
		return 0
	}
	if strings.Contains(o, "replay diverged") {
		fmt.Println("STALE: the assignment was recorded for a different version of the harness")
		return 2
	}
	fmt.Printf("VIOLATION property=%s replay=%s\n", id, abs)
	return 1
}

func printResult(res *interp.Result) {
	fmt.Printf("harness %s: paths=%d completed=%d infeasible=%d decisions=%d asserts=%d (solver-decided %d) wall=%v\n",
		res.Harness, res.Paths, res.Completed, res.Infeasible, res.Decisions, res.Asserts, res.AssertsSym, res.Wall.Round(time.Millisecond))
	fmt.Printf("  solver: queries=%d sat=%d unsat=%d unknown=%d errors=%d time=%v; tierB queries=%d time=%v\n",
		res.Solver.Queries, res.Solver.Sat, res.Solver.Unsat, res.Solver.Unknown, res.Solver.Errors, res.Solver.Time.Round(time.Millisecond), res.SolverB.Queries, res.SolverB.Time.Round(time.Millisecond))
	fmt.Printf("  witness=%v known=%v\n", res.Witness, res.Known)
	for _, o := range res.Observes {
		fmt.Printf("  OBSERVE %s\n", o)
	}
	printMap := func(title string, m map[string]int) {
		if len(m) == 0 {
			return
		}
		keys := make([]string, 0, len(m))
		for k := range m {
			keys = append(keys, k)
		}
		sort.Strings(keys)
		fmt.Printf("  %s:\n", title)
		for _, k := range keys {
			fmt.Printf("    %6d  %s\n", m[k], k)
		}
	}
	printMap("UNSUPPORTED", res.Unsupported)
	printMap("BUDGET", res.Budget)
	if os.Getenv("SYMGO_KNOWNAUDIT") != "" {
		printMap("KNOWN-PREDICATE ON WHILE THE ASSERTION HELD", res.KnownHeld)
	}
	printMap("HANG-CANDIDATES", res.Hangs)
	printMap("INCONCLUSIVE", res.Inconclusive)
	for _, v := range res.Violations {
		fmt.Printf("  CANDIDATE %s [%s] known=%q tierB=%s path=%s\n     values=%v chooses=%v\n", v.Label, v.Kind, v.Known, v.TierB, v.Decisions, v.Assign.Values, v.Assign.Chooses)
		if len(v.Stack) > 0 {
			fmt.Printf("     stack: %s\n", strings.Join(v.Stack, " > "))
		}
	}
}

func doCheck(id, tier string) int {
	t0 := time.Now()
	seed, _ := strconv.Atoi(os.Getenv("VERIF_SEED"))
	hs, files, err := scanHarnesses()
	if err != nil {
		fatal(err)
	}
	var sel []*Harness
	relSet := map[string]bool{}
	for _, h := range hs {
		if h.ID == id && h.Tiers[tier] {
			sel = append(sel, h)
			relSet[h.Pkg] = true
		}
	}
	if len(sel) == 0 {
		fmt.Printf("INCONCLUSIVE no harness registered for %s tier %s\n", id, tier)
		return 2
	}
	var rels []string
	for r := range relSet {
		rels = append(rels, r)
	}
	sort.Strings(rels)
	ov := buildOverlay(rels, files, hs, false)
	l := load(rels, ov)
	known := loadKnown()

	workDir := filepath.Join(verifDir, ".work", fmt.Sprintf("%s-%s-%d", id, tier, os.Getpid()))
	os.RemoveAll(workDir)
	os.MkdirAll(workDir, 0o755)
	if os.Getenv("SYMGO_KEEP") == "" {
		defer os.RemoveAll(workDir)
	}
	replayDir := filepath.Join(verifDir, "replays")
	os.MkdirAll(replayDir, 0o755)

	var reports []*harnessReport
	for _, h := range sel {
		pkg := l.pkgs[h.Pkg]
		f := pkg.Func(h.Func)
		if f == nil {
			fatal(fmt.Errorf("harness %s not found in %s", h.Func, h.Pkg))
		}
		opt := interp.Options{}
		// wall-clock limit per harness: a change to the repository can make the solver's work much harder
		// (or a path space explode); what was not explored by then is reported as INCONCLUSIVE, and
		// whatever violation was found before is still replayed and reported
		opt.Timeout = 8 * time.Minute
		opt.AfterViol = 90 * time.Second
		if tier == "thorough" {
			opt.Timeout = 90 * time.Minute
			opt.AfterViol = 10 * time.Minute
		}
		if v := os.Getenv("SYMGO_HARNESS_TIMEOUT"); v != "" {
			if d, err := time.ParseDuration(v); err == nil {
				opt.Timeout = d
			}
		}
		if v := h.Opts["maxpaths"]; v != "" {
			opt.MaxPaths, _ = strconv.Atoi(v)
		}
		if v := h.Opts["steps"]; v != "" {
			opt.MaxSteps, _ = strconv.Atoi(v)
		}
		if v := h.Opts["depth"]; v != "" {
			opt.MaxDepth, _ = strconv.Atoi(v)
		}
		res := interp.Explore(pkg, f, opt)
		if os.Getenv("SYMGO_VERBOSE") != "" {
			printResult(res)
		}
		reports = append(reports, &harnessReport{H: h, Res: res})
	}

	// native replay of every candidate, grouped per package
	type cand struct {
		v    *interp.Violation
		h    *Harness
		file string
	}
	byPkg := map[string][]*cand{}
	for _, r := range reports {
		// differential samples: models of clean completed paths, which must also run clean natively
		for k, a := range r.Res.DiffSamples {
			b, _ := json.MarshalIndent(a, "", " ")
			file := filepath.Join(workDir, fmt.Sprintf("diff-%s-%d.json", r.H.Func, k))
			os.WriteFile(file, b, 0o644)
			byPkg[r.H.Pkg] = append(byPkg[r.H.Pkg], &cand{&interp.Violation{Harness: r.H.Func, Label: "differential sample", Kind: "diff", Assign: a}, r.H, file})
		}
		for _, v := range r.Res.Violations {
			b, _ := json.MarshalIndent(v.Assign, "", " ")
			sum := sha1.Sum(append(b, []byte(v.Label)...))
			file := filepath.Join(replayDir, fmt.Sprintf("%s-%x.json", id, sum[:6]))
			os.WriteFile(file, b, 0o644)
			byPkg[r.H.Pkg] = append(byPkg[r.H.Pkg], &cand{v, r.H, file})
		}
	}
	confirmed := 0
	diffRuns, diffAgree := 0, 0
	var diffMismatch []string
	var hangNotReproduced []string
	spurious := 0
	replays := 0
	knownSeen := map[string]bool{}
	var violLines []string
	for rel, cs := range byPkg {
		ovT := buildOverlay([]string{rel}, files, hs, true)
		ovJSON := writeOverlayFiles(ovT, filepath.Join(workDir, "ovl-"+strings.ReplaceAll(rel, "/", "_")))
		var fs []string
		for _, c := range cs {
			fs = append(fs, c.file)
		}
		remaining := fs
		outcomes := map[string]string{}
		for len(remaining) > 0 {
			got, txt := nativeReplay(rel, ovJSON, remaining, false, 45*time.Second)
			if os.Getenv("SYMGO_VERBOSE") != "" {
				fmt.Fprintf(os.Stderr, "native replay output:\n%s\n", txt)
			}
			if len(got) == 0 {
				fmt.Fprintf(os.Stderr, "native replay produced no outcome:\n%s\n", txt)
				break
			}
			var next []string
			for _, f := range remaining {
				if o, ok := got[f]; ok {
					outcomes[f] = o
				} else {
					next = append(next, f)
				}
			}
			if len(next) == len(remaining) {
				break
			}
			remaining = next
		}
		for _, c := range cs {
			o := outcomes[c.file]
			replays++
			if c.v.Kind == "diff" {
				diffRuns++
				switch {
				case o == "ok":
					diffAgree++
				case o == "", o == "no-outcome", o == "timeout", strings.Contains(o, "replay diverged"), o == "assume-failed", strings.HasPrefix(o, "error:"):
					diffMismatch = append(diffMismatch, fmt.Sprintf("%s: differential sample did not run to completion natively (outcome %q)", c.h.Func, o))
				default:
					// the engine found this path clean, the real code does not: keep the input and report it
					keep := filepath.Join(replayDir, fmt.Sprintf("%s-diff-%s", id, filepath.Base(c.file)))
					if b, err := os.ReadFile(c.file); err == nil {
						os.WriteFile(keep, b, 0o644)
					}
					confirmed++
					violLines = append(violLines, fmt.Sprintf("VIOLATION property=%s replay=%s", id, keep))
					fmt.Fprintf(os.Stderr, "violation: differential sample of %s fails natively although the engine explored its path as clean (native outcome: %s)\n", c.h.Func, o)
				}
				continue
			}
			reproduced := false
			switch c.v.Kind {
			case "assert":
				reproduced = strings.HasPrefix(o, "assert-failed") && strings.Contains(o, c.v.Label) || strings.HasPrefix(o, "panic")
			case "panic":
				reproduced = strings.HasPrefix(o, "panic") || o == "timeout"
			case "hang":
				reproduced = o == "timeout" || strings.HasPrefix(o, "panic: stack overflow")
			case "shared-write":
				reproduced = true // footprint violations have no native observable; reported from the engine
			}
			if !reproduced && c.v.Kind == "hang" {
				hangNotReproduced = append(hangNotReproduced, fmt.Sprintf("%s: step budget exceeded on a path that terminates natively (outcome %q): bound too small for this input; file %s", c.h.Func, o, c.file))
				continue
			}
			if !reproduced {
				spurious++
				fmt.Fprintf(os.Stderr, "SPURIOUS candidate %q in %s did not reproduce natively (outcome %q): engine fault or imprecise summary; file %s\n", c.v.Label, c.h.Func, o, c.file)
				continue
			}
			if c.v.Known != "" {
				if kf, ok := known[c.v.Known]; ok {
					if !knownSeen[kf.ID] {
						knownSeen[kf.ID] = true
						fmt.Printf("KNOWN-FINDING: property=%s %s [%s; replay %s]\n", id, kf.What, kf.ID, c.file)
					}
					continue
				}
			}
			confirmed++
			violLines = append(violLines, fmt.Sprintf("VIOLATION property=%s replay=%s", id, c.file))
			fmt.Fprintf(os.Stderr, "violation: %s in %s: %s (native outcome: %s)\n", c.v.Kind, c.h.Func, c.v.Label, o)
		}
	}

	// inconclusive conditions
	var inconclusive []string
	for _, r := range reports {
		res := r.Res
		for k, n := range res.Unsupported {
			inconclusive = append(inconclusive, fmt.Sprintf("%s: unsupported ×%d: %s", r.H.Func, n, k))
		}
		for k, n := range res.Budget {
			inconclusive = append(inconclusive, fmt.Sprintf("%s: bound exceeded ×%d: %s", r.H.Func, n, k))
		}
		for k, n := range res.Inconclusive {
			inconclusive = append(inconclusive, fmt.Sprintf("%s: inconclusive ×%d: %s", r.H.Func, n, k))
		}
		for _, w := range r.H.Witness {
			if res.Witness[w] == 0 {
				inconclusive = append(inconclusive, fmt.Sprintf("%s: reachability witness %q not reached (vacuous harness?)", r.H.Func, w))
			}
		}
	}
	inconclusive = append(inconclusive, hangNotReproduced...)
	inconclusive = append(inconclusive, diffMismatch...)
	if spurious > 0 {
		inconclusive = append(inconclusive, fmt.Sprintf("%d candidate counterexample(s) did not reproduce natively (engine imprecision)", spurious))
	}
	sort.Strings(inconclusive)
	for _, s := range inconclusive {
		fmt.Println("INCONCLUSIVE " + s)
	}

	if id == "SELF" {
		// engine self-test: any disagreement between a summary and the interpreted naive code
		// (a candidate that does not reproduce natively), any native failure and any inconclusive
		// condition fails it; no evidence file (it is not a property)
		for _, l := range violLines {
			fmt.Println(l)
		}
		if spurious > 0 || confirmed > 0 || len(inconclusive) > 0 {
			fmt.Printf("SELFTEST FAILED spurious=%d native-failures=%d inconclusive=%d\n", spurious, confirmed, len(inconclusive))
			return 1
		}
		fmt.Printf("SELFTEST OK harnesses=%d differential=%d/%d wall=%.1fs\n", len(reports), diffAgree, diffRuns, time.Since(t0).Seconds())
		return 0
	}
	writeEvidence(id, tier, seed, reports, confirmed, spurious, replays, diffRuns, diffAgree, knownSeen, inconclusive, time.Since(t0))

	for _, l := range violLines {
		fmt.Println(l)
	}
	if confirmed > 0 {
		return 1
	}
	paths, asserts := 0, 0
	for _, r := range reports {
		paths += r.Res.Paths
		asserts += r.Res.Asserts
	}
	fmt.Printf("OK property=%s tier=%s harnesses=%d paths=%d assertions=%d known=%d inconclusive=%d differential=%d/%d wall=%.1fs\n", id, tier, len(reports), paths, asserts, len(knownSeen), len(inconclusive), diffAgree, diffRuns, time.Since(t0).Seconds())
	return 0
}

func writeEvidence(id, tier string, seed int, reports []*harnessReport, confirmed, spurious, replays, diffRuns, diffAgree int, knownSeen map[string]bool, inconclusive []string, wall time.Duration) {
	type hEv struct {
		Harness    string         `json:"harness"`
		Package    string         `json:"package"`
		Bounds     string         `json:"bounds"`
		Paths      int            `json:"paths"`
		Completed  int            `json:"completed_paths"`
		Infeasible int            `json:"infeasible_or_assumed_away"`
		Decisions  int            `json:"decisions"`
		Asserts    int            `json:"assertions_checked"`
		AssertsSym int            `json:"assertions_decided_by_solver_query"`
		Witness    map[string]int `json:"witnesses_reached"`
		Candidates int            `json:"counterexample_candidates"`
		Queries    map[string]int `json:"queries"`
		SolverS    float64        `json:"solver_s"`
		TierBQ     int            `json:"tierB_queries"`
		TierBS     float64        `json:"tierB_solver_s"`
		WallS      float64        `json:"wall_s"`
		Truncated  bool           `json:"truncated"`
	}
	var hev []hEv
	states, trans := 0, 0
	funcs := map[string]int{}
	stubs := map[string]int{}
	var samples []interface{}
	for _, r := range reports {
		res := r.Res
		states += res.Paths
		trans += res.Decisions
		hev = append(hev, hEv{Harness: r.H.Func, Package: r.H.Pkg, Bounds: r.H.Bounds, Paths: res.Paths, Completed: res.Completed,
			Infeasible: res.Infeasible, Decisions: res.Decisions, Asserts: res.Asserts, AssertsSym: res.AssertsSym, Witness: res.Witness,
			Candidates: len(res.Violations),
			Queries:    map[string]int{"total": res.Solver.Queries, "sat": res.Solver.Sat, "unsat": res.Solver.Unsat, "unknown": res.Solver.Unknown, "errors": res.Solver.Errors},
			SolverS:    res.Solver.Time.Seconds(), TierBQ: res.SolverB.Queries, TierBS: res.SolverB.Time.Seconds(), WallS: res.Wall.Seconds(), Truncated: res.Truncated})
		for f, n := range res.Coverage {
			if strings.Contains(f, ".verif") || strings.Contains(f, "verifH_") {
				continue
			}
			if n > funcs[f] {
				funcs[f] = n
			}
		}
		for s, n := range res.Stubs {
			stubs[s] += n
		}
		for _, s := range res.Samples {
			if len(samples) < 8 {
				samples = append(samples, map[string]string{"harness": r.H.Func, "path": s})
			}
		}
	}
	if len(samples) == 0 {
		samples = append(samples, "no symbolic path condition recorded (all paths concrete)")
	}
	if trans == 0 {
		trans = 1
	}
	fnames := make([]string, 0, len(funcs))
	for f := range funcs {
		fnames = append(fnames, fmt.Sprintf("%s (%d instrs)", f, funcs[f]))
	}
	sort.Strings(fnames)
	snames := make([]string, 0, len(stubs))
	for s := range stubs {
		snames = append(snames, s)
	}
	sort.Strings(snames)
	kn := []string{}
	for k := range knownSeen {
		kn = append(kn, k)
	}
	sort.Strings(kn)
	level := "model_checking"
	if id == "C15" {
		level = "other" // reduction to a per-call footprint claim (see explanation)
	}
	cov := map[string]interface{}{
		"states":                        states,
		"transitions":                   trans,
		"traces_validated_against_impl": replays,
		"samples":                       samples,
		"differential_samples_replayed": diffRuns,
		"differential_samples_agreeing": diffAgree,
		"explanation":                   explanationFor(id) + "bounded symbolic execution of the repository's go/ssa: states = explored paths, transitions = recorded decisions (symbolic branches, shape choices, solver-derived concretisations); every assertion on every path is closed by an SMT query (or is concrete on that path); counterexample candidates are replayed natively; models of log-spaced clean completed paths are replayed natively as well (differential validation of the encoding: the native run must be clean too)",
		"harnesses":                     hev,
		"functions_encoded":             fnames,
		"stubs_and_summaries_hit":       snames,
		"counterexamples_replayed":      replays,
		"counterexamples_spurious":      spurious,
		"known_findings_reproduced":     kn,
		"inconclusive":                  inconclusive,
		"exhaustive":                    len(inconclusive) == 0,
		"solver":                        "z3 4.8.12 (/usr/bin/z3 -in, incremental, no set-logic); tier B: precise IEEE-754 re-check of candidates",
	}
	ev := map[string]interface{}{
		"property_id": id,
		"tier":        tier,
		"seed":        seed,
		"level":       level,
		"coverage":    cov,
		"assumptions": []string{
			"go/packages + go/ssa (x/tools v0.29.0) translate the source faithfully; the interpreter (fork of x/tools go/ssa/interp) implements SSA semantics",
			"summaries listed under stubs_and_summaries_hit model the named stdlib / third-party functions (see DESIGN.md section 2.4)",
			"map iteration order: sorted keys (results are assumed independent of Go's randomised order)",
			"float->int conversion follows amd64 semantics; tier A abstracts float64 + - * / and IsInt as uninterpreted functions with exact NaN lemmas",
			"bounds are those in each harness's 'bounds' field; nothing is claimed outside them",
		},
		"wall_s":     wall.Seconds(),
		"violations": confirmed,
	}
	b, _ := json.MarshalIndent(ev, "", " ")
	evDir := filepath.Join(verifDir, "evidence")
	if scratchRepo {
		evDir = filepath.Join(verifDir, ".work", "scratch-evidence")
	}
	os.MkdirAll(evDir, 0o755)
	if err := os.WriteFile(filepath.Join(evDir, id+".json"), b, 0o644); err != nil {
		fatal(err)
	}
}

func explanationFor(id string) string {
	if id == "C15" {
		return "C15 is decided by reduction, not by enumerating schedules: a data race needs two unsynchronised accesses to one location, at least one a write; the footprint monitor shows, on every explored path, that the call writes no object that existed before it started except through sync.Map, sync.Once or under a held mutex, so any interleaving of such calls is race-free and each returns what it returns alone. "
	}
	return ""
}
